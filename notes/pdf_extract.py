import re,zlib,sys
d=open(sys.argv[1],'rb').read()
# parse objects
objs={}
for m in re.finditer(rb'(\d+) 0 obj\b',d):
    n=int(m.group(1)); s=m.end(); e=d.find(b'endobj',s)
    objs[n]=d[s:e]
def stream(n):
    o=objs[n]; i=o.find(b'stream'); 
    if i<0: return None
    s=i+6
    if o[s:s+2]==b'\r\n': s+=2
    elif o[s:s+1]==b'\n': s+=1
    e=o.rfind(b'endstream')
    raw=o[s:e]
    try: return zlib.decompress(raw)
    except Exception: 
        try: return zlib.decompressobj().decompress(raw)
        except Exception: return raw
def cmap(n):
    t=stream(n).decode('latin1'); mp={}
    for blk in re.findall(r'beginbfchar(.*?)endbfchar',t,re.S):
        for a,b in re.findall(r'<([0-9A-Fa-f]+)>\s*<([0-9A-Fa-f]+)>',blk):
            mp[int(a,16)]=bytes.fromhex(b).decode('utf-16-be')
    for blk in re.findall(r'beginbfrange(.*?)endbfrange',t,re.S):
        for a,b,c in re.findall(r'<([0-9A-Fa-f]+)>\s*<([0-9A-Fa-f]+)>\s*<([0-9A-Fa-f]+)>',blk):
            a,b,c=int(a,16),int(b,16),int(c,16)
            for i in range(a,b+1): mp[i]=chr(c+i-a)
        for a,b,arr in re.findall(r'<([0-9A-Fa-f]+)>\s*<([0-9A-Fa-f]+)>\s*\[(.*?)\]',blk,re.S):
            a=int(a,16)
            for i,h in enumerate(re.findall(r'<([0-9A-Fa-f]+)>',arr)): mp[a+i]=bytes.fromhex(h).decode('utf-16-be')
    return mp
# pages in order: find Pages kids
def kids(n):
    o=objs[n]
    if re.search(rb'/Type\s*/Pages',o):
        k=re.search(rb'/Kids\s*\[(.*?)\]',o,re.S).group(1)
        r=[]
        for x in re.findall(rb'(\d+) 0 R',k): r+=kids(int(x))
        return r
    return [n]
root=[n for n,o in objs.items() if re.search(rb'/Type\s*/Pages',o) and b'/Parent' not in o][0]
pages=kids(root)
fontcache={}
for pi,p in enumerate(pages):
    o=objs[p]
    res=o
    m=re.search(rb'/Resources\s+(\d+) 0 R',o)
    if m: res=objs[int(m.group(1))]
    fm=re.search(rb'/Font\s*<<(.*?)>>',res,re.S)
    fonts={}
    if fm:
        for name,ref in re.findall(rb'/(\w+)\s+(\d+) 0 R',fm.group(1)):
            ref=int(ref)
            if ref not in fontcache:
                tu=re.search(rb'/ToUnicode\s+(\d+) 0 R',objs[ref])
                fontcache[ref]=cmap(int(tu.group(1))) if tu else None
            fonts[name.decode()]=fontcache[ref]
    cm=re.search(rb'/Contents\s+(\d+) 0 R',o)
    cs=[int(cm.group(1))] if cm else [int(x) for x in re.findall(rb'(\d+) 0 R',re.search(rb'/Contents\s*\[(.*?)\]',o,re.S).group(1))]
    print(f'\n=== page {pi+1} ===')
    for c in cs:
        t=stream(c).decode('latin1')
        cur=None; line=[]; lasty=None; out=[]
        # tokens
        base=(0,0); 
        for m in re.finditer(r'/(\w+)\s+[\d.]+\s+Tf|([-\d.]+)\s+([-\d.]+)\s+Td|<([0-9A-Fa-f]+)>\s*Tj|\[(.*?)\]\s*TJ|([-\d.]+ [-\d.]+ [-\d.]+ [-\d.]+ ([-\d.]+) ([-\d.]+)) cm|\bBT\b|\bET\b',t):
            g=m.group(0)
            if m.group(1): cur=fonts.get(m.group(1))
            elif m.group(4) is not None or m.group(5) is not None:
                hs=[m.group(4)] if m.group(4) is not None else re.findall(r'<([0-9A-Fa-f]+)>',m.group(5))
                for h in hs:
                    for i in range(0,len(h),4):
                        code=int(h[i:i+4],16)
                        out.append(cur.get(code,'?') if cur else '?')
            elif m.group(6):
                y=m.group(8)
                if y!=lasty: out.append('\n'); lasty=y
        print(''.join(out))
