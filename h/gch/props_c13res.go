package gch

import (
	"strings"
	"testing"

	"github.com/VKCOM/tl/pkg/basictl"
	"github.com/VKCOM/tl/verifh/pbt"
	"pgregory.net/rapid"
)

// ---- C13, function results: the result of a function is a TL2 object too (it has its own generated reader) --------

type resAdmissible struct {
	fnCase
	Form string `json:"form"` // huge-size | oversize
	Cut  int    `json:"cut"`
}

func checkC13Result(reg *Registry, c resAdmissible) pbt.Result {
	it := reg.Find(c.Item)
	if it == nil || !it.IsFunction() || !it.HasTL2() {
		return pbt.Result{Err: nil, Classes: []string{"not-a-tl2-function"}}
	}
	fn := it.CreateFunction()
	fn2, ok := fn.(TL2Function)
	if !ok {
		return pbt.Result{Classes: []string{"not-a-tl2-function"}}
	}
	fn.FillRandom(NewGenerator(c.Seed, c.Profile))
	var r1, t2, rest []byte
	var err error
	if e := call("FillRandomResultTL1", func() { r1, err = fn.FillRandomResultTL1(NewGenerator(c.ResSeed, c.ResProf), nil) }); e != nil || err != nil {
		return pbt.Result{Classes: []string{"no-random-result"}}
	}
	if e := call("ReadResultTL1WriteResultTL2", func() { rest, t2, err = fn2.ReadResultTL1WriteResultTL2(&basictl.TL2WriteContext{}, r1, nil) }); e != nil || err != nil || len(rest) != 0 {
		return pbt.Result{Classes: []string{"result-not-transcodable"}} // C07's business
	}
	_, size, perr := basictl.TL2ParseSize(t2)
	hdr := basictl.TL2CalculateSize(size)
	if perr != nil || hdr+size != len(t2) || size == 0 {
		return pbt.Result{Classes: []string{"result-not-a-sized-object"}}
	}
	// what the minimal encoding denotes (not r1 itself: TL2 drops a negative zero - known finding F24 of C04)
	var base []byte
	if e := call("ReadResultTL2WriteResultTL1", func() { rest, base, err = fn2.ReadResultTL2WriteResultTL1(&basictl.TL2ReadContext{}, t2, nil) }); e != nil || err != nil || len(rest) != 0 {
		return pbt.Result{Classes: []string{"result-not-transcodable"}} // C07's business
	}
	var in []byte
	switch c.Form {
	case "huge-size":
		in = append([]byte{255, byte(size), byte(size >> 8), byte(size >> 16), byte(size >> 24), 0, 0, 0, 0}, t2[hdr:]...)
	default:
		k := 1 + c.Cut%(len(t2)-1)
		in = t2[:len(t2)-k]
	}
	var back []byte
	if e := call("ReadResultTL2WriteResultTL1", func() { rest, back, err = fn2.ReadResultTL2WriteResultTL1(&basictl.TL2ReadContext{}, in, nil) }); e != nil {
		return pbt.Fail("%s: the TL2 result reader on the %s form %s of result %s: %v", c.Item, c.Form, hexHead(in), hexHead(t2), e)
	}
	if c.Form == "oversize" {
		if err == nil {
			return pbt.Fail("%s: result object declares %d body bytes but only %d remain, yet the TL2 result reader accepted %s", c.Item, size, len(in)-hdr, hexHead(in))
		}
		if strings.Contains(err.Error(), "panicked") {
			return pbt.Fail("%s: %v", c.Item, err)
		}
		return pbt.Result{NonTrivial: true, Classes: []string{"result-form-oversize"}}
	}
	if err != nil || len(rest) != 0 || !eq(back, base) {
		return pbt.Fail("%s: the huge-size re-encoding %s of result %s is not read as the same result: %v (%d bytes left) %s", c.Item, hexHead(in), hexHead(t2), err, len(rest), diffAt(base, back))
	}
	return pbt.Result{NonTrivial: true, Classes: []string{"result-form-huge-size"}}
}

func propC13Results(t *testing.T, reg *Registry) {
	items := filterItems(reg, func(it Item) bool { return it.IsFunction() && it.HasTL2() })
	if len(items) == 0 {
		return
	}
	pbt.Run(t, "tl2-admissible-results/"+reg.SetName, perType(len(items), 120, 1200), func(rt *rapid.T) resAdmissible {
		v := genVal(rt, items, false)
		v.Bytes = false
		return resAdmissible{fnCase: fnCase{ValCase: v, ResSeed: rapid.Uint64().Draw(rt, "rseed"), ResProf: rapid.IntRange(0, 4).Draw(rt, "rprof")},
			Form: rapid.SampledFrom([]string{"huge-size", "oversize", "oversize"}).Draw(rt, "form"), Cut: rapid.IntRange(0, 1000).Draw(rt, "cut")}
	}, func(c resAdmissible) pbt.Result { return checkC13Result(reg, c) })
}
