package gch

import (
	"fmt"
	"reflect"
	"strings"
	"testing"
	"unsafe"

	"github.com/VKCOM/tl/verifh/pbt"
)

// Types that take an external field mask ({m:#} template parameter) are never registry items; they are reached
// through the Go type graph of the items. Their accessors are exercised on a stand-alone empty value: Set must make
// IsSet(mask) true, Clear must make it false, and Set followed by Clear must leave the hidden TL2/JSON presence bits
// (tl2mask* fields) as in an empty value, with a nil and with a non-nil mask pointer.

type nestedAccCase struct {
	Type   string `json:"go_type"`
	Acc    string `json:"accessor_field"`
	NilNat bool   `json:"nil_nat_pointer"`
}

func nestedStructTypes(reg *Registry) map[string]reflect.Type {
	out := map[string]reflect.Type{}
	seen := map[reflect.Type]bool{}
	var walk func(t reflect.Type)
	walk = func(t reflect.Type) {
		if seen[t] {
			return
		}
		seen[t] = true
		switch t.Kind() {
		case reflect.Ptr, reflect.Slice, reflect.Array:
			walk(t.Elem())
		case reflect.Map:
			walk(t.Key())
			walk(t.Elem())
		case reflect.Struct:
			if t.Name() != "" && !strings.HasSuffix(t.Name(), "TLItemImpl") {
				out[t.String()] = t
			}
			for i := 0; i < t.NumField(); i++ {
				walk(t.Field(i).Type)
			}
		}
	}
	for _, it := range reg.Items {
		walk(reflect.TypeOf(it.CreateObject()))
		walk(reflect.TypeOf(it.CreateObjectBytes()))
	}
	return out
}

func extAccessors(t reflect.Type) []accessor {
	pt := reflect.PointerTo(t)
	var out []accessor
	for i := 0; i < pt.NumMethod(); i++ {
		m := pt.Method(i)
		if !strings.HasPrefix(m.Name, "IsSet") {
			continue
		}
		f := strings.TrimPrefix(m.Name, "IsSet")
		set, ok1 := pt.MethodByName("Set" + f)
		clr, ok2 := pt.MethodByName("Clear" + f)
		if !ok1 || !ok2 || clr.Type.NumIn() != 2 || clr.Type.In(1) != reflect.TypeOf((*uint32)(nil)) {
			continue
		}
		out = append(out, accessor{Field: f, set: set.Name, clear: clr.Name, isSet: m.Name, ext: true})
	}
	return out
}

func propC43Nested(t *testing.T, reg *Registry) {
	types := nestedStructTypes(reg)
	pbt.Enumerate(t, "accessors-external-mask/"+reg.SetName, func(yield func(nestedAccCase) bool) {
		for name, tp := range types {
			for _, a := range extAccessors(tp) {
				for _, nilNat := range []bool{false, true} {
					if !yield(nestedAccCase{name, a.Field, nilNat}) {
						return
					}
				}
			}
		}
	}, func(c nestedAccCase) pbt.Result {
		tp := types[c.Type]
		if tp == nil {
			return pbt.Fail("type %s not reachable", c.Type)
		}
		var a *accessor
		for _, x := range extAccessors(tp) {
			if x.Field == c.Acc {
				y := x
				a = &y
			}
		}
		if a == nil {
			return pbt.Fail("no accessor %s on %s", c.Acc, c.Type)
		}
		z := reflect.New(tp)
		var nat uint32
		np := reflect.ValueOf(&nat)
		if c.NilNat {
			np = reflect.Zero(reflect.TypeOf((*uint32)(nil)))
		}
		set := z.MethodByName(a.set)
		var args []reflect.Value
		switch set.Type().NumIn() {
		case 2:
			args = []reflect.Value{reflect.Zero(set.Type().In(0)), np}
			if set.Type().In(0).Kind() == reflect.Bool {
				args[0] = reflect.ValueOf(true)
			}
		case 1:
			args = []reflect.Value{np}
		default:
			return pbt.Result{Classes: []string{"unsupported-setter-shape"}}
		}
		if e := call(a.set, func() { set.Call(args) }); e != nil {
			return pbt.Fail("%s.%s: %v", c.Type, a.set, e)
		}
		isSet := func() bool {
			m := z.MethodByName(a.isSet)
			if m.Type().NumIn() == 1 {
				return m.Call([]reflect.Value{reflect.ValueOf(nat)})[0].Bool()
			}
			return m.Call(nil)[0].Bool()
		}
		tl2Presence := z.MethodByName(a.isSet).Type().NumIn() == 0 // IsSet() reads the object's own presence bits
		if (!c.NilNat || tl2Presence) && !isSet() {
			return pbt.Fail("%s: after %s(v, &mask) %s(mask=%#x) is false", c.Type, a.set, a.isSet, nat)
		}
		maskAfterSet := tl2masks(z)
		if e := call(a.clear, func() { z.MethodByName(a.clear).Call([]reflect.Value{np}) }); e != nil {
			return pbt.Fail("%s.%s: %v", c.Type, a.clear, e)
		}
		if isSet() {
			return pbt.Fail("%s: after %s(&mask) %s(mask=%#x) is still true", c.Type, a.clear, a.isSet, nat)
		}
		if m := tl2masks(z); strings.Trim(m, "0 ") != "" {
			return pbt.Fail("%s: %s then %s on an empty value (nil mask pointer: %v) leaves TL2/JSON presence bits set: %s (after the setter: %s)", c.Type, a.set, a.clear, c.NilNat, m, maskAfterSet)
		}
		return pbt.Result{NonTrivial: true, Classes: []string{"external-mask"}}
	})
}

// tl2masks renders the hidden presence bytes of a generated struct.
func tl2masks(p reflect.Value) string {
	e := p.Elem()
	var sb strings.Builder
	for i := 0; i < e.NumField(); i++ {
		f := e.Type().Field(i)
		if strings.HasPrefix(f.Name, "tl2mask") {
			fv := reflect.NewAt(f.Type, unsafe.Pointer(e.Field(i).UnsafeAddr())).Elem()
			fmt.Fprintf(&sb, "%d ", fv.Uint())
		}
	}
	return sb.String()
}
