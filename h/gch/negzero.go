package gch

import (
	"math"
	"reflect"
)

// HasNegZero reports whether the value holds a negative-zero float anywhere (finding F24: TL2 and JSON writers
// treat every float that compares equal to 0 as empty, so -0.0 comes back as +0.0).
func HasNegZero(obj any) bool {
	found := false
	var walk func(v reflect.Value, depth int)
	walk = func(v reflect.Value, depth int) {
		if found || depth > 60 {
			return
		}
		switch v.Kind() {
		case reflect.Ptr, reflect.Interface:
			if !v.IsNil() {
				walk(v.Elem(), depth+1)
			}
		case reflect.Struct:
			for i := 0; i < v.NumField(); i++ {
				walk(v.Field(i), depth+1)
			}
		case reflect.Slice, reflect.Array:
			if v.Type().Elem().Kind() == reflect.Uint8 {
				return
			}
			for i := 0; i < v.Len(); i++ {
				walk(v.Index(i), depth+1)
			}
		case reflect.Map:
			it := v.MapRange()
			for it.Next() {
				walk(it.Key(), depth+1)
				walk(it.Value(), depth+1)
			}
		case reflect.Float32, reflect.Float64:
			if f := v.Float(); f == 0 && math.Signbit(f) {
				found = true
			}
		}
	}
	walk(reflect.ValueOf(obj), 0)
	return found
}

// onlyNegZeroDiffs: a and b have equal length and differ only where a has the sign byte 0x80 of a negative-zero
// float (preceded by at least three zero bytes) and b has 0x00 (finding F24).
func onlyNegZeroDiffs(a, b []byte) bool {
	if len(a) != len(b) {
		return false
	}
	n := 0
	for i := range a {
		if a[i] == b[i] {
			continue
		}
		if a[i] != 0x80 || b[i] != 0 || i < 3 || a[i-1] != 0 || a[i-2] != 0 || a[i-3] != 0 {
			return false
		}
		n++
	}
	return n > 0
}
