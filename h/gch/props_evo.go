package gch

import "testing"

// propC13Nested is the schema-aware half of C13 (nested non-minimal encodings and real schema evolution between
// two generated packages); it is provided by the evolution harness when the glue registers a second registry.
func propC13Nested(t *testing.T, reg *Registry, items []Item) {
	if EvoNew == nil {
		return
	}
	propC13Evolution(t, reg, EvoNew)
}

// EvoNew is the registry of the newer schema version (set by the glue of evolution sets).
var EvoNew *Registry
