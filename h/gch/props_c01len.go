package gch

import (
	"reflect"
	"strings"
	"testing"
	"unsafe"

	"github.com/VKCOM/tl/verifh/pbt"
	"pgregory.net/rapid"
)

// ---- C01, second clause: a value whose array lengths disagree with their size parameters is a write error, never an
// encoding. The harness cannot know from the Go type which slices are governed by a size parameter, so it changes the
// length of one slice of a valid value and accepts exactly two outcomes: the writer reports an error, or the bytes it
// produced denote the very value that was written (then the slice was a free-length vector). A writer that silently
// drops, pads or miscounts elements produces bytes that denote another value. --------------------------------------

type lenCase struct {
	ValCase
	Slice int `json:"slice"` // which slice of the value (in walk order) gets another length
	Grow  bool `json:"grow"`
}

func collectSlices(v reflect.Value) []reflect.Value {
	var out []reflect.Value
	var walk func(v reflect.Value, depth int)
	walk = func(v reflect.Value, depth int) {
		if depth > 40 {
			return
		}
		switch v.Kind() {
		case reflect.Ptr, reflect.Interface:
			if !v.IsNil() {
				walk(v.Elem(), depth+1)
			}
		case reflect.Struct:
			for i := 0; i < v.NumField(); i++ {
				fv := v.Field(i)
				if !fv.CanSet() {
					if !fv.CanAddr() {
						continue
					}
					fv = reflect.NewAt(fv.Type(), unsafe.Pointer(fv.UnsafeAddr())).Elem()
				}
				walk(fv, depth+1)
			}
		case reflect.Array:
			for i := 0; i < v.Len(); i++ {
				walk(v.Index(i), depth+1)
			}
		case reflect.Slice:
			if v.Type().Elem().Kind() == reflect.Uint8 {
				return
			}
			if v.CanSet() {
				out = append(out, v)
			}
			for i := 0; i < v.Len(); i++ {
				walk(v.Index(i), depth+1)
			}
		}
	}
	walk(v, 0)
	return out
}

func checkC01Len(reg *Registry, c lenCase) pbt.Result {
	obj, it, err := reg.Make(c.ValCase)
	if err != nil {
		return pbt.Result{Err: err}
	}
	if strings.HasSuffix(reflect.TypeOf(obj).String(), "TLItemImpl") {
		return pbt.Result{Classes: []string{"no-slices"}}
	}
	if _, err := tl1(obj); err != nil {
		return pbt.Result{Classes: []string{"source-not-encodable"}}
	}
	slices := collectSlices(reflect.ValueOf(obj))
	if len(slices) == 0 {
		return pbt.Result{Classes: []string{"no-slices"}}
	}
	s := slices[c.Slice%len(slices)]
	before := s.Len()
	if c.Grow || before == 0 {
		s.Set(reflect.Append(s, reflect.Zero(s.Type().Elem())))
	} else {
		s.Set(s.Slice(0, before-1))
	}
	w, werr := tl1(obj)
	if werr != nil {
		if strings.Contains(werr.Error(), "panicked") {
			return pbt.Fail("%s: writer on a value with a slice of %d instead of %d elements: %v", c.Item, s.Len(), before, werr)
		}
		return pbt.Result{NonTrivial: true, Classes: []string{"write-error"}}
	}
	// the writer accepted: the bytes must denote exactly this value
	fresh := Create(it, c.Bytes)
	rest, rerr := readTL1(fresh, w)
	if rerr != nil {
		if isF5(rerr) && pbt.KnownFor("F5", c.Item) && !pbt.Replaying() {
			return pbt.Result{Excluded: "F5"}
		}
		return pbt.Fail("%s: a slice went from %d to %d elements; the writer produced %s, which the reader rejects: %v", c.Item, before, s.Len(), hexHead(w), rerr)
	}
	if len(rest) != 0 {
		return pbt.Fail("%s: a slice went from %d to %d elements; the writer produced %s, of which the reader leaves %d bytes", c.Item, before, s.Len(), hexHead(w), len(rest))
	}
	j1, jerr1 := jsonOf(obj, JSONOpts{})
	j2, jerr2 := jsonOf(fresh, JSONOpts{})
	if jerr1 != nil && jerr2 == nil {
		return pbt.Fail("%s: a value whose array length disagrees with its size parameter was encoded: slice %d -> %d elements, TL1 writer gave %s without error, the JSON writer says: %v", c.Item, before, s.Len(), hexHead(w), jerr1)
	}
	if jerr1 == nil && jerr2 == nil && !eq(j1, j2) && !strings.Contains(string(j1), "NaN") && !HasMap(obj) {
		return pbt.Fail("%s: slice %d -> %d elements; the writer accepted the value but its bytes %s denote another one:\n  written %s\n  decoded %s", c.Item, before, s.Len(), hexHead(w), strHead(j1), strHead(j2))
	}
	return pbt.Result{NonTrivial: true, Classes: []string{"accepted-free-length"}}
}

func propC01Len(t *testing.T, reg *Registry, items []Item) {
	pbt.Run(t, "tl1-length-mismatch/"+reg.SetName, perType(len(items), 60, 800), func(rt *rapid.T) lenCase {
		v := genVal(rt, items, false)
		return lenCase{ValCase: v, Slice: rapid.IntRange(0, 63).Draw(rt, "slice"), Grow: rapid.Bool().Draw(rt, "grow")}
	}, func(c lenCase) pbt.Result { return checkC01Len(reg, c) })
}
