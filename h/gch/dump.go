package gch

import (
	"fmt"
	"os"
	"strings"
	"testing"
)

// DUMP is a debugging aid, not a property: VERIF_PROP=DUMP VERIF_DUMP=<name substring> prints a few values of the
// matching items as JSON / TL1 / TL2.
func init() {
	props["DUMP"] = func(t *testing.T, reg *Registry) {
		want := os.Getenv("VERIF_DUMP")
		for _, it := range reg.Items {
			if !strings.Contains(it.TLName(), want) {
				continue
			}
			for seed := uint64(0); seed < 3; seed++ {
				obj, _, err := reg.Make(ValCase{Item: it.TLName(), Seed: seed, Profile: int(seed)})
				if err != nil {
					fmt.Println(it.TLName(), "make:", err)
					continue
				}
				js, _ := jsonOf(obj, JSONOpts{})
				b1, _ := tl1Boxed(obj)
				fmt.Printf("%s\n  json %s\n  tl1  %x\n", it.TLName(), js, b1)
			}
		}
	}
}
