package gch

import (
	"bufio"
	"encoding/hex"
	"encoding/json"
	"fmt"
	"io"
	"math/rand/v2"
	"os"
	"os/exec"
	"runtime/debug"
	"strings"
	"sync"
	"syscall"
	"time"

	"github.com/VKCOM/tl/internal/pure"
	"github.com/VKCOM/tl/internal/pure/onthefly"
)

// The interpreter (internal/pure/onthefly) runs in a helper process: its readers allocate whatever an input's element
// count says and its Random has no depth bound, so a hostile input or a recursive type ends in a fatal runtime error
// (out of memory, stack overflow) that cannot be recovered in-process. The helper is this test binary re-executed with
// VERIF_C12_SERVER=1 and an address-space limit; requests and answers are JSON lines on descriptors 3 and 4.

type interpReq struct {
	Item   string `json:"item"`
	Fn     bool   `json:"fn"`
	Op     string `json:"op"`     // random | read
	Format string `json:"format"` // tl1 tl1boxed tl2
	Seed   uint64 `json:"seed,omitempty"`
	In     string `json:"in,omitempty"` // hex
}

type interpResp struct {
	Unsupported string `json:"unsupported,omitempty"` // reason: the interpreter has no value for this item
	Union       bool   `json:"union,omitempty"`
	Recursive   bool   `json:"recursive,omitempty"`
	HasTuple    bool   `json:"has_tuple,omitempty"`
	HasDict     bool   `json:"has_dict,omitempty"`
	Err         string `json:"err,omitempty"`      // read error (a rejection)
	Panic       string `json:"panic,omitempty"`    // recovered panic text
	Rest        int    `json:"rest,omitempty"`     // unread bytes after an accepted read
	Out         string `json:"out,omitempty"`      // bytes written (random: the value; read: the re-encoding), hex
	WriteErr    string `json:"write_err,omitempty"`
}

func interpServer() {
	debug.SetMaxStack(64 << 20)
	lim := uint64(3 << 29) // 1.5 GiB of address space: a count-driven allocation fails fast instead of thrashing
	_ = syscall.Setrlimit(syscall.RLIMIT_AS, &syscall.Rlimit{Cur: lim, Max: lim})
	in := bufio.NewReaderSize(os.NewFile(3, "req"), 1<<20)
	out := os.NewFile(4, "resp")
	k, kerr := theKernel()
	for {
		line, err := in.ReadBytes('\n')
		if err != nil {
			return
		}
		var q interpReq
		var r interpResp
		if json.Unmarshal(line, &q) != nil {
			r.Panic = "bad request"
		} else if kerr != nil {
			r.Panic = "kernel: " + kerr.Error()
		} else {
			r = serve(k, q)
		}
		b, _ := json.Marshal(r)
		if _, err := out.Write(append(b, '\n')); err != nil {
			return
		}
	}
}

type nameItem struct {
	Item
	name string
	fn   bool
}

func (n nameItem) TLName() string   { return n.name }
func (n nameItem) IsFunction() bool { return n.fn }

func serve(k *pure.Kernel, q interpReq) (r interpResp) {
	it := nameItem{name: q.Item, fn: q.Fn}
	iv, reason := interpValue(k, it)
	if reason != "" {
		return interpResp{Unsupported: reason}
	}
	facts := factsOf(instanceOf(k, it))
	r.Recursive, r.HasTuple, r.HasDict = facts.recursive, facts.hasTuple, facts.hasDict
	_, r.Union = iv.(*onthefly.KernelValueUnion)
	ifmt := q.Format // a union has no bare form: the generated "bare" methods of a union item read and write the tag
	if r.Union && ifmt == "tl1" {
		ifmt = "tl1boxed"
	}
	switch q.Op {
	case "random":
		if perr := call("interpreter Random", func() { iv.Random(rand.New(rand.NewPCG(q.Seed, 12))) }); perr != nil {
			r.Panic = perr.Error()
			return r
		}
		b, err := iWrite(iv, ifmt)
		if err != nil {
			r.Panic = err.Error()
			return r
		}
		r.Out = hex.EncodeToString(b)
	case "read":
		in, _ := hex.DecodeString(q.In)
		rest, err := iRead(iv, ifmt, in)
		if err != nil {
			if strings.Contains(err.Error(), "panicked") {
				r.Panic = err.Error()
			} else {
				r.Err = err.Error()
			}
			return r
		}
		r.Rest = len(rest)
		b, err := iWrite(iv, ifmt)
		if err != nil {
			r.WriteErr = err.Error()
			return r
		}
		r.Out = hex.EncodeToString(b)
	}
	return r
}

// ---- client ----------------------------------------------------------------------------------------------

type interpClient struct {
	mu     sync.Mutex
	cmd    *exec.Cmd
	w      io.WriteCloser
	r      *bufio.Reader
	stderr *tailBuf
	Deaths int
}

type tailBuf struct {
	mu sync.Mutex
	b  []byte
}

func (t *tailBuf) Write(p []byte) (int, error) {
	t.mu.Lock()
	defer t.mu.Unlock()
	t.b = append(t.b, p...)
	if len(t.b) > 1<<16 {
		t.b = t.b[len(t.b)-1<<15:]
	}
	return len(p), nil
}

func (t *tailBuf) String() string {
	t.mu.Lock()
	defer t.mu.Unlock()
	return string(t.b)
}

var theInterp interpClient

func (c *interpClient) start() error {
	reqR, reqW, err := os.Pipe()
	if err != nil {
		return err
	}
	respR, respW, err := os.Pipe()
	if err != nil {
		return err
	}
	cmd := exec.Command(os.Args[0], "-test.run", "^TestGen$", "-test.timeout", "0")
	cmd.Env = append(os.Environ(), "VERIF_C12_SERVER=1", "VERIF_STATS=", "VERIF_REPLAY_OUT=", "VERIF_REPLAY_IN=", "VERIF_JOURNAL=", "GOTRACEBACK=none")
	cmd.ExtraFiles = []*os.File{reqR, respW}
	c.stderr = &tailBuf{}
	cmd.Stdout = io.Discard
	cmd.Stderr = c.stderr
	if err := cmd.Start(); err != nil {
		return err
	}
	reqR.Close()
	respW.Close()
	c.cmd, c.w, c.r = cmd, reqW, bufio.NewReaderSize(respR, 1<<20)
	return nil
}

// Do sends one request; died != "" when the helper process ended while serving it (the text names the fatal error).
func (c *interpClient) Do(q interpReq) (r interpResp, died string, err error) {
	c.mu.Lock()
	defer c.mu.Unlock()
	if c.cmd == nil {
		if err := c.start(); err != nil {
			return r, "", err
		}
	}
	b, _ := json.Marshal(q)
	type res struct {
		line []byte
		err  error
	}
	ch := make(chan res, 1)
	go func() {
		if _, err := c.w.Write(append(b, '\n')); err != nil {
			ch <- res{nil, err}
			return
		}
		line, err := c.r.ReadBytes('\n')
		ch <- res{line, err}
	}()
	var got res
	select {
	case got = <-ch:
	case <-time.After(40 * time.Second):
		c.cmd.Process.Kill()
		got = <-ch
		got.err = fmt.Errorf("no answer within 40s")
	}
	if got.err != nil {
		c.cmd.Process.Kill()
		c.cmd.Wait()
		c.w.Close()
		tail := c.stderr.String()
		c.cmd = nil
		c.Deaths++
		why := "helper process died: " + got.err.Error()
		for _, key := range []string{"out of memory", "cannot allocate memory", "stack overflow", "stack exceeds"} {
			if strings.Contains(tail, key) {
				why = "fatal error: " + key
				break
			}
		}
		return r, why, nil
	}
	if err := json.Unmarshal(got.line, &r); err != nil {
		return r, "", fmt.Errorf("bad answer from the interpreter helper: %v", err)
	}
	return r, "", nil
}
