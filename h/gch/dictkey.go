package gch

import (
	"reflect"
	"strings"
	"unicode/utf8"
)

// HasNonUTF8DictKey reports whether a dictionary in the value has a string key that is not valid UTF-8
// (finding F25: the JSON writer then puts a {"base64":...} object in key position, which is not JSON).
func HasNonUTF8DictKey(obj any) bool {
	found := false
	var walk func(v reflect.Value, depth int)
	walk = func(v reflect.Value, depth int) {
		if found || depth > 60 {
			return
		}
		switch v.Kind() {
		case reflect.Ptr, reflect.Interface:
			if !v.IsNil() {
				walk(v.Elem(), depth+1)
			}
		case reflect.Struct:
			// slice-backed dictionaries are slices of {Key, Value} pairs (whatever the schema calls the pair type)
			if strings.Contains(v.Type().Name(), "DictionaryField") || v.FieldByName("Value").IsValid() {
				if k := v.FieldByName("Key"); k.IsValid() {
					switch {
					case k.Kind() == reflect.String && !utf8.ValidString(k.String()):
						found = true
					case k.Kind() == reflect.Slice && k.Type().Elem().Kind() == reflect.Uint8 && !utf8.Valid(k.Bytes()):
						found = true
					}
				}
			}
			for i := 0; i < v.NumField(); i++ {
				walk(v.Field(i), depth+1)
			}
		case reflect.Slice, reflect.Array:
			if v.Type().Elem().Kind() == reflect.Uint8 {
				return
			}
			for i := 0; i < v.Len(); i++ {
				walk(v.Index(i), depth+1)
			}
		case reflect.Map:
			it := v.MapRange()
			for it.Next() {
				if k := it.Key(); k.Kind() == reflect.String && !utf8.ValidString(k.String()) {
					found = true
				}
				walk(it.Value(), depth+1)
			}
		}
	}
	walk(reflect.ValueOf(obj), 0)
	return found
}
