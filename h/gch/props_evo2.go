package gch

import "testing"

func propC13Evolution(t *testing.T, old *Registry, newer *Registry) {}
