package gch

import (
	"reflect"
	"strings"
	"testing"
	"unsafe"

	"github.com/VKCOM/tl/verifh/pbt"
	"pgregory.net/rapid"
)

// ---- C13, schema evolution on real code: regOld is generated from a TL2 schema, regNew from the same schema with
// fields appended (all named vAdded<N>) to structs, variant field lists and function arguments. --------------------

func propC13Evolution(t *testing.T, old *Registry, newer *Registry) {}

type evoCase struct {
	ValCase
	From string `json:"from"` // older | newer: which version writes
}

// clearAdded resets every appended field inside v (Go name VAdded<N>): optional ones through their Clear method.
func clearAdded(v reflect.Value, depth int) {
	if depth > 40 {
		return
	}
	switch v.Kind() {
	case reflect.Ptr, reflect.Interface:
		if !v.IsNil() {
			clearAdded(v.Elem(), depth+1)
		}
	case reflect.Struct:
		for i := 0; i < v.NumField(); i++ {
			fv := v.Field(i)
			name := v.Type().Field(i).Name
			if !fv.CanSet() {
				if !fv.CanAddr() {
					continue
				}
				fv = reflect.NewAt(fv.Type(), unsafe.Pointer(fv.UnsafeAddr())).Elem()
			}
			if strings.HasPrefix(name, "VAdded") {
				if v.CanAddr() {
					if m := v.Addr().MethodByName("Clear" + name); m.IsValid() && m.Type().NumIn() == 0 {
						m.Call(nil)
						continue
					}
				}
				fv.Set(reflect.Zero(fv.Type()))
				continue
			}
			clearAdded(fv, depth+1)
		}
	case reflect.Slice, reflect.Array:
		if v.Type().Elem().Kind() == reflect.Uint8 {
			return
		}
		for i := 0; i < v.Len(); i++ {
			clearAdded(v.Index(i), depth+1)
		}
	case reflect.Map:
		// map values are not addressable: rebuild the entries
		if v.IsNil() || v.Len() == 0 {
			return
		}
		for _, k := range v.MapKeys() {
			e := reflect.New(v.Type().Elem()).Elem()
			e.Set(v.MapIndex(k))
			clearAdded(e, depth+1)
			v.SetMapIndex(k, e)
		}
	}
}

func checkEvolution(regOld, regNew *Registry, c evoCase) pbt.Result {
	itOld, itNew := regOld.ByName(c.Item), regNew.ByName(c.Item)
	if itOld == nil || itNew == nil {
		return pbt.Result{Err: nil, Classes: []string{"item-not-in-both-versions"}}
	}
	if c.From == "older" {
		// fields missing at the end of an object body are empty: the newer reader accepts and reproduces the bytes
		var obj Object
		var err error
		if perr := call("FillRandom", func() { obj, _, err = regOld.Make(c.ValCase) }); perr != nil || err != nil {
			return pbt.Result{Classes: []string{"value-not-available"}}
		}
		b1, err := tl2(obj, nil)
		if err != nil {
			return pbt.Result{Classes: []string{"source-not-encodable"}}
		}
		n := Create(itNew, c.Bytes && hasBytesVariant(itNew))
		rest, err := readTL2(n, append(append([]byte{}, b1...), trailing...))
		if err != nil || !eq(rest, trailing) {
			return pbt.Fail("%s: bytes %s written by the older schema version are not read by the newer one (fields appended): %v (%d bytes left, %d expected)", c.Item, hexHead(b1), err, len(rest), len(trailing))
		}
		b2, err := tl2(n, nil)
		if err != nil || !eq(b1, b2) {
			return pbt.Fail("%s: the newer version re-encodes %s (written by the older one) as %s (%v): the missing fields were not read as empty", c.Item, hexHead(b1), hexHead(b2), err)
		}
		return pbt.Result{NonTrivial: len(b1) >= 3, Classes: []string{"older-to-newer"}}
	}
	// newer -> older: the older reader skips what was appended
	var obj Object
	var err error
	if perr := call("FillRandom", func() { obj, _, err = regNew.Make(c.ValCase) }); perr != nil || err != nil {
		return pbt.Result{Classes: []string{"value-not-available"}}
	}
	b2, err := tl2(obj, nil)
	if err != nil {
		return pbt.Result{Classes: []string{"source-not-encodable"}}
	}
	o := Create(itOld, c.Bytes && hasBytesVariant(itOld))
	rest, err := readTL2(o, append(append([]byte{}, b2...), trailing...))
	if err != nil || !eq(rest, trailing) {
		return pbt.Fail("%s: bytes %s written by the newer schema version (fields appended) are not read by the older one: %v (%d bytes left, %d expected)", c.Item, hexHead(b2), err, len(rest), len(trailing))
	}
	b1, err := tl2(o, nil)
	if err != nil {
		return pbt.Fail("%s: the older version cannot write what it read from %s: %v", c.Item, hexHead(b2), err)
	}
	// expected: the newer version's encoding of the same value with every appended field cleared
	proj := Create(itNew, c.Bytes && hasBytesVariant(itNew))
	if rest, err := readTL2(proj, b2); err != nil || len(rest) != 0 {
		return pbt.Result{Classes: []string{"source-does-not-read-its-own-bytes"}} // C03's business
	}
	if perr := call("clearAdded", func() { clearAdded(reflect.ValueOf(proj), 0) }); perr != nil {
		return pbt.Result{Err: perr}
	}
	want, err := tl2(proj, nil)
	if err != nil {
		return pbt.Result{Classes: []string{"projection-not-encodable"}}
	}
	if !eq(b1, want) {
		return pbt.Fail("%s: the older version reads %s (newer version, appended fields set) as %s; the same value without the appended fields is %s: %s", c.Item, hexHead(b2), hexHead(b1), hexHead(want), diffAt(want, b1))
	}
	cls := []string{"newer-to-older"}
	if !eq(b2, want) {
		cls = append(cls, "appended-fields-were-set")
	}
	return pbt.Result{NonTrivial: !eq(b2, want), Classes: cls}
}

func mainEvolution(t *testing.T, regOld, regNew *Registry) {
	var items []Item
	for _, it := range regOld.Items {
		if !it.HasTL2() {
			continue
		}
		if other := regNew.ByName(it.TLName()); other != nil && other.HasTL2() {
			items = append(items, it)
		}
	}
	if len(items) == 0 {
		t.Fatalf("harness: no TL2 item is common to both schema versions of %s", regOld.SetName)
	}
	pbt.Run(t, "tl2-evolution/"+regOld.SetName, perType(len(items), 300, 4000), func(rt *rapid.T) evoCase {
		return evoCase{ValCase: genVal(rt, items, false), From: rapid.SampledFrom([]string{"older", "newer", "newer"}).Draw(rt, "from")}
	}, func(c evoCase) pbt.Result { return checkEvolution(regOld, regNew, c) })
}
