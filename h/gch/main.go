package gch

import (
	"bytes"
	"encoding/binary"
	"encoding/json"
	"fmt"
	"os"
	"runtime/debug"
	"strings"
	"testing"

	"github.com/VKCOM/tl/pkg/basictl"
	"github.com/VKCOM/tl/verifh/pbt"
	"pgregory.net/rapid"
)

// Main dispatches to the property selected by VERIF_PROP. It is called from the generated glue test.
func Main(t *testing.T, reg *Registry) {
	if os.Getenv("VERIF_C12_SERVER") != "" {
		interpServer() // helper process of C12: serves the dynamic interpreter over descriptors 3/4
		return
	}
	debug.SetMaxStack(256 << 20) // a runaway recursion dies quickly (and is attributed by the driver's journal re-run)
	ctxMap := map[string]string{"schema_set": reg.SetName, "generator_args": os.Getenv("VERIF_GEN_ARGS")}
	if strings.HasPrefix(reg.SetName, "rnd") { // a random schema set: the replay file must carry the schema itself
		if b, err := os.ReadFile(os.Getenv("VERIF_GEN_FILES")); err == nil {
			ctxMap["schema_text"] = string(b)
		}
	}
	ctx, _ := json.Marshal(ctxMap)
	pbt.Context = ctx
	prop := os.Getenv("VERIF_PROP")
	f, ok := props[prop]
	if !ok {
		t.Fatalf("no generated-code property %q", prop)
	}
	f(t, reg)
}

var props = map[string]func(*testing.T, *Registry){}

// ---- helpers -----------------------------------------------------------------------------

// call runs f and converts a panic of the code under test into an error.
func call(what string, f func()) (err error) {
	defer func() {
		if r := recover(); r != nil {
			err = fmt.Errorf("%s panicked: %v", what, r)
		}
	}()
	f()
	return nil
}

func tl1(o Object) (b []byte, err error) {
	if e := call("WriteTL1General", func() { b, err = o.WriteTL1General(nil) }); e != nil {
		return nil, e
	}
	return
}

func tl1Boxed(o Object) (b []byte, err error) {
	if e := call("WriteTL1BoxedGeneral", func() { b, err = o.WriteTL1BoxedGeneral(nil) }); e != nil {
		return nil, e
	}
	return
}

func readTL1(o Object, in []byte) (rest []byte, err error) {
	if e := call("ReadTL1", func() { rest, err = o.ReadTL1(in) }); e != nil {
		return nil, e
	}
	return
}

func readTL1Boxed(o Object, in []byte) (rest []byte, err error) {
	if e := call("ReadTL1Boxed", func() { rest, err = o.ReadTL1Boxed(in) }); e != nil {
		return nil, e
	}
	return
}

func tl2(o Object, reuse *basictl.TL2WriteContext) (b []byte, err error) {
	t, ok := o.(TL2Object)
	if !ok {
		return nil, fmt.Errorf("%s was generated without TL2", o.TLName())
	}
	err = call("WriteTL2", func() { b = t.WriteTL2(nil, reuse) })
	return
}

func readTL2(o Object, in []byte) (rest []byte, err error) {
	t, ok := o.(TL2Object)
	if !ok {
		return nil, fmt.Errorf("%s was generated without TL2", o.TLName())
	}
	if e := call("ReadTL2", func() { rest, err = t.ReadTL2(in, &basictl.TL2ReadContext{}) }); e != nil {
		return nil, e
	}
	return
}

type JSONOpts struct {
	Short  bool `json:"short,omitempty"`
	Legacy bool `json:"legacy_type_names,omitempty"`
}

func jsonOf(o Object, opt JSONOpts) (b []byte, err error) {
	if e := call("WriteJSONGeneral", func() {
		b, err = o.WriteJSONGeneral(&basictl.JSONWriteContext{Short: opt.Short, LegacyTypeNames: opt.Legacy}, nil)
	}); e != nil {
		return nil, e
	}
	return
}

func readJSON(o Object, text []byte, opt JSONOpts) (err error) {
	if e := call("ReadJSONGeneral", func() {
		in := basictl.JsonLexer{Data: text}
		err = o.ReadJSONGeneral(&basictl.JSONReadContext{LegacyTypeNames: opt.Legacy}, &in)
		if err == nil {
			in.Consumed()
			err = in.Error()
		}
	}); e != nil {
		return e
	}
	return
}

func tagBytes(tag uint32) []byte {
	var b [4]byte
	binary.LittleEndian.PutUint32(b[:], tag)
	return b[:]
}

func hexHead(b []byte) string {
	if len(b) > 48 && os.Getenv("VERIF_FULLHEX") == "" {
		return fmt.Sprintf("%x…(%d bytes)", b[:48], len(b))
	}
	return fmt.Sprintf("%x", b)
}

func strHead(b []byte) string {
	if len(b) > 300 {
		return string(b[:300]) + "…"
	}
	return string(b)
}

var trailing = []byte{0xca, 0xfe, 0xba, 0xbe, 0x01, 0x02, 0x03}

func eq(a, b []byte) bool { return bytes.Equal(a, b) }

// hasBytesVariant: the []byte variant is a different Go type than the string variant.
func hasBytesVariant(it Item) bool {
	a, b := it.CreateObject(), it.CreateObjectBytes()
	return fmt.Sprintf("%T", a) != fmt.Sprintf("%T", b)
}

// genVal draws a value case over the items accepted by filter.
func genVal(rt *rapid.T, items []Item, nan bool) ValCase {
	it := items[rapid.IntRange(0, len(items)-1).Draw(rt, "item")]
	c := ValCase{
		Item:    it.TLName(),
		Seed:    rapid.Uint64().Draw(rt, "seed"),
		Profile: rapid.IntRange(0, 6).Draw(rt, "profile"),
		Mut:     rapid.SampledFrom([]int{0, 0, 1, 2, 4, 12}).Draw(rt, "mut"),
	}
	if rapid.IntRange(0, 3).Draw(rt, "variant") == 0 && hasBytesVariant(it) {
		c.Bytes = true
	}
	if nan && rapid.IntRange(0, 3).Draw(rt, "nan") == 0 {
		c.NaN = true
	}
	return c
}

func filterItems(reg *Registry, f func(Item) bool) []Item {
	var out []Item
	for _, it := range reg.Items {
		if f(it) {
			out = append(out, it)
		}
	}
	return out
}

func perType(n int, quick, thorough int) int {
	return pbt.Scale(max(1, n)*quick, max(1, n)*thorough)
}
