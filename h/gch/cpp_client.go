package gch

import (
	"bufio"
	"encoding/hex"
	"fmt"
	"io"
	"os"
	"os/exec"
	"strconv"
	"strings"
	"sync"
	"time"
)

// cppClient talks to /verif/cpp/runner.cpp compiled (with ASan and UBSan) against the C++ code that tlgen generated for
// the schema of this set. One request per line; the process is restarted when it dies.
type cppClient struct {
	mu     sync.Mutex
	cmd    *exec.Cmd
	w      io.WriteCloser
	r      *bufio.Reader
	stderr *tailBuf
}

var theCpp cppClient

type cppAnswer struct {
	Verdict  string // noitem reject accept writefail
	Consumed int
	Out      []byte
}

func (c *cppClient) start() error {
	path := os.Getenv("VERIF_CPP_RUNNER")
	if path == "" {
		return fmt.Errorf("VERIF_CPP_RUNNER is not set")
	}
	cmd := exec.Command(path)
	cmd.Env = append(os.Environ(), "ASAN_OPTIONS=detect_leaks=0:abort_on_error=0:allocator_may_return_null=1:max_allocation_size_mb=256", "UBSAN_OPTIONS=print_stacktrace=1")
	w, err := cmd.StdinPipe()
	if err != nil {
		return err
	}
	r, err := cmd.StdoutPipe()
	if err != nil {
		return err
	}
	c.stderr = &tailBuf{}
	cmd.Stderr = c.stderr
	if err := cmd.Start(); err != nil {
		return err
	}
	c.cmd, c.w, c.r = cmd, w, bufio.NewReaderSize(r, 1<<20)
	return nil
}

// Do returns the runner's answer; died != "" when the process ended while serving the request (sanitizer report tail).
func (c *cppClient) Do(name string, boxed bool, in []byte) (a cppAnswer, died string, err error) {
	c.mu.Lock()
	defer c.mu.Unlock()
	if c.cmd == nil {
		if err := c.start(); err != nil {
			return a, "", err
		}
	}
	mode, hx := "bare", hex.EncodeToString(in)
	if boxed {
		mode = "boxed"
	}
	if hx == "" {
		hx = "-"
	}
	type res struct {
		line string
		err  error
	}
	ch := make(chan res, 1)
	go func() {
		if _, err := io.WriteString(c.w, name+" "+mode+" "+hx+"\n"); err != nil {
			ch <- res{"", err}
			return
		}
		line, err := c.r.ReadString('\n')
		ch <- res{line, err}
	}()
	var got res
	select {
	case got = <-ch:
	case <-time.After(30 * time.Second):
		c.cmd.Process.Kill()
		got = <-ch
		got.err = fmt.Errorf("no answer within 30s")
	}
	if got.err != nil {
		c.cmd.Process.Kill()
		c.cmd.Wait()
		c.w.Close()
		tail := c.stderr.String()
		c.cmd = nil
		if len(tail) > 1800 {
			tail = tail[:1800]
		}
		return a, "the C++ process died (" + got.err.Error() + "):\n" + tail, nil
	}
	f := strings.Fields(got.line)
	if len(f) == 0 {
		return a, "", fmt.Errorf("empty answer from the C++ runner")
	}
	a.Verdict = f[0]
	if len(f) > 1 {
		a.Consumed, _ = strconv.Atoi(f[1])
	}
	if len(f) > 2 && f[2] != "-" {
		a.Out, _ = hex.DecodeString(f[2])
	}
	return a, "", nil
}
