package gch

import "fmt"

// diffAt describes where two encodings first differ (offset plus a window of both), for failure messages.
func diffAt(a, b []byte) string {
	n := min(len(a), len(b))
	i := 0
	for i < n && a[i] == b[i] {
		i++
	}
	if i == n && len(a) == len(b) {
		return "identical"
	}
	lo := max(0, i-8)
	return fmt.Sprintf("first difference at offset %d (lengths %d / %d): ...%x|%x vs ...%x|%x", i, len(a), len(b), a[lo:i], a[i:min(len(a), i+16)], b[lo:i], b[i:min(len(b), i+16)])
}
