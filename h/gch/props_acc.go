package gch

import (
	"fmt"
	"reflect"
	"strings"
	"testing"

	"github.com/VKCOM/tl/verifh/pbt"
	"pgregory.net/rapid"
)

func init() { props["C43"] = propC43 }

// accessor triple found by reflection on a generated struct
type accessor struct {
	Field string // Go field name
	set   string
	clear string
	isSet string
	ext   bool // external field mask: Set(v, *uint32) / Clear(*uint32) / IsSet(uint32)
}

func accessorsOf(obj Object) []accessor {
	v := reflect.ValueOf(obj)
	t := v.Type()
	var out []accessor
	for i := 0; i < t.NumMethod(); i++ {
		m := t.Method(i)
		if !strings.HasPrefix(m.Name, "IsSet") {
			continue
		}
		f := strings.TrimPrefix(m.Name, "IsSet")
		set, ok1 := t.MethodByName("Set" + f)
		clr, ok2 := t.MethodByName("Clear" + f)
		if !ok1 || !ok2 {
			continue
		}
		a := accessor{Field: f, set: set.Name, clear: clr.Name, isSet: m.Name}
		// receiver counts as input 0
		switch {
		case m.Type.NumIn() == 1 && clr.Type.NumIn() == 1 && (set.Type.NumIn() == 2 || set.Type.NumIn() == 1):
		case clr.Type.NumIn() == 2 && clr.Type.In(1) == reflect.TypeOf((*uint32)(nil)):
			// external field mask: Set(v, *uint32) / Clear(*uint32); IsSet() reads the TL2 presence bits when TL2 is
			// generated and IsSet(mask uint32) otherwise
			a.ext = true
		default:
			continue
		}
		out = append(out, a)
	}
	return out
}

type accCase struct {
	ValCase
	Acc    string `json:"accessor_field"`
	NilNat bool   `json:"nil_nat_pointer,omitempty"` // external mask: call Set/Clear with a nil mask pointer
	VSeed  uint64 `json:"value_seed"`
}

// fieldValue builds a random value of the setter's parameter type by filling a fresh object of the same struct type
// under another seed and reading the field from it (keeps nested sizes consistent).
func setterArg(obj Object, it Item, bytesVariant bool, a accessor, seed uint64) (reflect.Value, bool) {
	set := reflect.ValueOf(obj).MethodByName(a.set)
	if set.Type().NumIn() == 0 || (a.ext && set.Type().NumIn() == 1) {
		return reflect.Value{}, false // true-typed field: Set(bool)/Set() handled by caller
	}
	donor := Create(it, bytesVariant)
	donor.FillRandom(NewGenerator(seed, 2)) // all masks on: the field is populated
	fv := reflect.ValueOf(donor).Elem().FieldByName(a.Field)
	if fv.IsValid() && fv.Kind() == reflect.Ptr && !fv.IsNil() && fv.Type().Elem() == set.Type().In(0) {
		return fv.Elem(), true
	}
	if !fv.IsValid() || fv.Type() != set.Type().In(0) {
		return reflect.Zero(set.Type().In(0)), true
	}
	return fv, true
}

func isSetOf(obj Object, a accessor, nat uint32) bool {
	m := reflect.ValueOf(obj).MethodByName(a.isSet)
	var out []reflect.Value
	if m.Type().NumIn() == 1 {
		out = m.Call([]reflect.Value{reflect.ValueOf(nat)})
	} else {
		out = m.Call(nil)
	}
	return out[0].Bool()
}

func checkC43(reg *Registry, c accCase) pbt.Result {
	obj, it, err := reg.Make(c.ValCase)
	if err != nil {
		return pbt.Result{Err: err}
	}
	if pbt.KnownFor("F27", c.Item) && !pbt.Replaying() {
		return pbt.Result{Excluded: "F27"}
	}
	var a *accessor
	accs := accessorsOf(obj)
	for i := range accs {
		if accs[i].Field == c.Acc {
			a = &accs[i]
		}
	}
	if a == nil {
		return pbt.Result{Classes: []string{"no-such-accessor"}}
	}
	if pbt.Known("F27") && !pbt.Replaying() && underNestedMask(c.Item, a.Field) {
		return pbt.Result{Excluded: "F27"} // the same shape in a schema set whose item names are not listed (random schemas)
	}
	if a.ext {
		// external masks live in the enclosing object; the accessor contract there is about the passed mask word and
		// the object's own TL2/JSON presence: checked through IsSet(mask) and the TL2 / JSON round trips below
	}
	ov := reflect.ValueOf(obj)
	var nat uint32
	natArg := reflect.ValueOf(&nat)
	if c.NilNat {
		natArg = reflect.Zero(reflect.TypeOf((*uint32)(nil)))
	}
	// snapshot of the other fields and presence flags
	type snap struct {
		fields map[string]any
		isset  map[string]bool
	}
	take := func() snap {
		s := snap{map[string]any{}, map[string]bool{}}
		e := ov.Elem()
		for i := 0; i < e.NumField(); i++ {
			f := e.Type().Field(i)
			if f.PkgPath != "" || f.Type.Kind() == reflect.Uint32 || f.Name == a.Field {
				continue
			}
			s.fields[f.Name] = deepCopy(e.Field(i)).Interface()
		}
		for _, o := range accs {
			if o.Field != a.Field && !o.ext {
				s.isset[o.Field] = isSetOf(obj, o, 0)
			}
		}
		return s
	}
	// which other accessors are coupled to this one by the schema (same mask bit)? probe on a zero object
	coupled := map[string]bool{}
	if !a.ext {
		zero := Create(it, c.Bytes)
		if arg, ok := setterArg(zero, it, c.Bytes, *a, c.VSeed); ok {
			reflect.ValueOf(zero).MethodByName(a.set).Call([]reflect.Value{reflect.Zero(arg.Type())})
		} else if m := reflect.ValueOf(zero).MethodByName(a.set); m.Type().NumIn() == 1 {
			m.Call([]reflect.Value{reflect.ValueOf(true)})
		}
		for _, o := range accs {
			if o.Field != a.Field && !o.ext && isSetOf(zero, o, 0) {
				coupled[o.Field] = true
			}
		}
	}
	before := take()
	// ---- Set
	setM := ov.MethodByName(a.set)
	arg, hasArg := setterArg(obj, it, c.Bytes, *a, c.VSeed)
	if hasArg && arg.Kind() == reflect.Uint32 {
		// a # field may be the mask or the size of other fields of this object: a foreign number would make the object
		// inconsistent (a bit set for a field that holds nothing, a count that differs from the array). The accessor
		// law for such a field is about its presence; it is set to the number it already holds.
		if cur := reflect.ValueOf(obj).Elem().FieldByName(a.Field); cur.IsValid() && cur.Kind() == reflect.Uint32 {
			arg = reflect.ValueOf(uint32(cur.Uint())).Convert(arg.Type())
		}
	}
	var args []reflect.Value
	switch {
	case hasArg:
		args = append(args, arg)
	case setM.Type().NumIn() >= 1 && setM.Type().In(0).Kind() == reflect.Bool:
		args = append(args, reflect.ValueOf(true))
	}
	if a.ext {
		args = append(args, natArg)
	}
	if setM.Type().NumIn() != len(args) {
		return pbt.Result{Classes: []string{"unsupported-setter-shape"}}
	}
	if e := call(a.set, func() { setM.Call(args) }); e != nil {
		return pbt.Fail("%s.%s: %v", c.Item, a.set, e)
	}
	natNow := nat
	if a.ext && !c.NilNat && !isSetOf(obj, *a, natNow) {
		return pbt.Fail("%s: after %s(v, &mask) IsSet%s(mask=%#x) is false", c.Item, a.set, a.Field, natNow)
	}
	if !a.ext && !isSetOf(obj, *a, 0) {
		return pbt.Fail("%s: after %s the field is not reported as present", c.Item, a.set)
	}
	afterSet := take()
	if err := unchanged(before, afterSet, coupled, take); err != "" {
		return pbt.Fail("%s: %s changed another field: %s", c.Item, a.set, err)
	}
	// the field must be emitted: every format must carry it to a fresh object
	if !a.ext {
		for _, format := range []string{"tl1", "tl2", "json"} {
			if (format == "tl1" && !it.HasTL1()) || (format == "tl2" && !it.HasTL2()) {
				continue
			}
			enc, err := encodeAs(obj, format)
			if err != nil {
				continue // e.g. a size mismatch elsewhere in the value; emission cannot be judged
			}
			fresh := Create(it, c.Bytes)
			if err := decodeAs(fresh, format, enc); err != nil {
				if isF5(err) && pbt.KnownFor("F5", c.Item) && !pbt.Replaying() {
					continue
				}
				if pbt.Known("F25") && !pbt.Replaying() && format == "json" && HasNonUTF8DictKey(obj) {
					continue
				}
				return pbt.Fail("%s: after %s the %s encoding %s is not readable: %v", c.Item, a.set, format, hexHead(enc), err)
			}
			if !isSetOf(fresh, *a, 0) {
				return pbt.Fail("%s: after %s the field is not emitted in %s (a fresh object decoding %s reports it absent)", c.Item, a.set, format, hexHead(enc))
			}
			// a # field may itself be a field mask whose bits are implied by the presence of its dependents
			// a value whose type takes # arguments is transmitted as those arguments select (here they may be the very
			// mask the setter updates: f2:items.1?(wrap items)): only its presence is judged
			if hasArg && arg.Kind() != reflect.Uint32 && !natDependent(arg.Type()) {
				got := reflect.ValueOf(fresh).Elem().FieldByName(a.Field)
				if got.IsValid() && !equalModuloEmpty(got, arg) && !HasNaN(arg.Interface()) && !(format != "tl1" && HasNegZero(arg.Interface())) {
					return pbt.Fail("%s: after %s the %s encoding carries a different value for %s: %v instead of %v", c.Item, a.set, format, a.Field, got.Interface(), arg.Interface())
				}
			}
		}
	}
	// ---- Clear
	clrM := ov.MethodByName(a.clear)
	var cargs []reflect.Value
	if a.ext {
		cargs = append(cargs, natArg)
	}
	if e := call(a.clear, func() { clrM.Call(cargs) }); e != nil {
		return pbt.Fail("%s.%s: %v", c.Item, a.clear, e)
	}
	if isSetOf(obj, *a, nat) {
		return pbt.Fail("%s: after %s the field is still reported as present (mask %#x, nil mask pointer: %v)", c.Item, a.clear, nat, c.NilNat)
	}
	afterClear := take()
	if err := unchanged(afterSet, afterClear, coupled, take); err != "" {
		return pbt.Fail("%s: %s changed another field: %s", c.Item, a.clear, err)
	}
	if !a.ext {
		for _, format := range []string{"tl1", "tl2", "json"} {
			if (format == "tl1" && !it.HasTL1()) || (format == "tl2" && !it.HasTL2()) {
				continue
			}
			enc, err := encodeAs(obj, format)
			if err != nil {
				continue
			}
			fresh := Create(it, c.Bytes)
			if err := decodeAs(fresh, format, enc); err != nil {
				continue
			}
			if isSetOf(fresh, *a, 0) {
				return pbt.Fail("%s: after %s the field is still emitted in %s (%s)", c.Item, a.clear, format, hexHead(enc))
			}
		}
	}
	// Set followed by Clear on a zero object must leave it encoded like a zero object (this is also how presence of
	// fields under an external mask, which IsSet(mask) cannot show, is observed in TL2 and JSON)
	{
		z := Create(it, c.Bytes)
		zv := reflect.ValueOf(z)
		var zn uint32
		zargs := append([]reflect.Value{}, args...)
		zc := append([]reflect.Value{}, cargs...)
		if a.ext {
			np := reflect.ValueOf(&zn)
			if c.NilNat {
				np = natArg
			}
			zargs[len(zargs)-1] = np
			zc[len(zc)-1] = np
		}
		if e := call(a.set+"+"+a.clear, func() { zv.MethodByName(a.set).Call(zargs); zv.MethodByName(a.clear).Call(zc) }); e != nil {
			return pbt.Fail("%s: %v", c.Item, e)
		}
		ref := Create(it, c.Bytes)
		for _, format := range []string{"tl1", "tl2", "json"} {
			if (format == "tl1" && (!it.HasTL1() || a.ext)) || (format == "tl2" && !it.HasTL2()) {
				continue
			}
			e1, err1 := encodeAs(z, format)
			e2, err2 := encodeAs(ref, format)
			if err1 != nil || err2 != nil {
				continue
			}
			if !eq(e1, e2) {
				return pbt.Fail("%s: %s then %s on an empty object (nil mask pointer: %v) does not give back an empty object in %s: %s instead of %s", c.Item, a.set, a.clear, c.NilNat, format, strOrHex(format, e1), strOrHex(format, e2))
			}
		}
	}
	cls := []string{}
	if a.ext {
		cls = append(cls, "external-mask")
	}
	if len(accs) >= 2 {
		cls = append(cls, ">=2-accessors")
	}
	return pbt.Result{NonTrivial: len(accs) >= 2, Classes: cls}
}

func strOrHex(format string, b []byte) string {
	if format == "json" {
		return strHead(b)
	}
	return hexHead(b)
}

func unchanged(a, b struct {
	fields map[string]any
	isset  map[string]bool
}, coupled map[string]bool, _ any) string {
	for k, v := range a.fields {
		if !reflect.DeepEqual(v, b.fields[k]) {
			return fmt.Sprintf("field %s changed from %v to %v", k, v, b.fields[k])
		}
	}
	for k, v := range a.isset {
		if b.isset[k] != v && !coupled[k] {
			return fmt.Sprintf("presence of %s changed from %v to %v", k, v, b.isset[k])
		}
	}
	return ""
}

func deepCopy(v reflect.Value) reflect.Value {
	c := reflect.New(v.Type()).Elem()
	switch v.Kind() {
	case reflect.Slice:
		if v.IsNil() {
			return c
		}
		c.Set(reflect.MakeSlice(v.Type(), v.Len(), v.Len()))
		for i := 0; i < v.Len(); i++ {
			c.Index(i).Set(deepCopy(v.Index(i)))
		}
	case reflect.Map:
		if v.IsNil() {
			return c
		}
		c.Set(reflect.MakeMap(v.Type()))
		it := v.MapRange()
		for it.Next() {
			c.SetMapIndex(it.Key(), deepCopy(it.Value()))
		}
	case reflect.Ptr:
		if v.IsNil() {
			return c
		}
		n := reflect.New(v.Type().Elem())
		n.Elem().Set(deepCopy(v.Elem()))
		c.Set(n)
	default:
		c.Set(v)
	}
	return c
}

// equalModuloEmpty: nil and empty slices/maps are the same value.
func equalModuloEmpty(a, b reflect.Value) bool {
	// recursive fields are held by pointer while the setter takes the value
	if a.Kind() == reflect.Ptr && b.Kind() != reflect.Ptr && !a.IsNil() {
		a = a.Elem()
	}
	if reflect.DeepEqual(a.Interface(), b.Interface()) {
		return true
	}
	ja, jb := fmt.Sprintf("%v", a.Interface()), fmt.Sprintf("%v", b.Interface())
	return ja == jb
}

func propC43(t *testing.T, reg *Registry) {
	propC43Nested(t, reg)
	type target struct {
		it  Item
		acc []accessor
	}
	var targets []target
	for _, it := range reg.Items {
		obj := it.CreateObject()
		if reflect.ValueOf(obj).Kind() != reflect.Ptr || reflect.ValueOf(obj).Elem().Kind() != reflect.Struct {
			continue
		}
		if a := accessorsOf(obj); len(a) > 0 {
			targets = append(targets, target{it, a})
		}
	}
	if len(targets) == 0 {
		return
	}
	pbt.Info("types_with_accessors", int64(len(targets)))
	pbt.Run(t, "accessors/"+reg.SetName, perType(len(targets), 400, 4000), func(rt *rapid.T) accCase {
		tg := targets[rapid.IntRange(0, len(targets)-1).Draw(rt, "type")]
		a := tg.acc[rapid.IntRange(0, len(tg.acc)-1).Draw(rt, "accessor")]
		c := accCase{ValCase: genVal(rt, []Item{tg.it}, false), Acc: a.Field, VSeed: rapid.Uint64().Draw(rt, "vseed")}
		c.Mut = 0
		if a.ext {
			c.NilNat = rapid.Bool().Draw(rt, "nilnat")
		}
		return c
	}, func(c accCase) pbt.Result { return checkC43(reg, c) })
}

// natDependent: the generated writer of the type (or of its element / pointee) takes # arguments after the buffer.
func natDependent(t reflect.Type) bool {
	for t.Kind() == reflect.Ptr || t.Kind() == reflect.Slice || t.Kind() == reflect.Array {
		t = t.Elem()
	}
	if t.Kind() != reflect.Struct {
		return false
	}
	for _, name := range []string{"WriteTL1", "WriteTL1Boxed", "WriteTL1General"} {
		if m, ok := reflect.PointerTo(t).MethodByName(name); ok {
			return m.Type.NumIn() > 2 // receiver, buffer
		}
	}
	return false
}

// underNestedMask: by the schema (parsed again by the harness), the field behind the accessor is governed by a local
// mask field that is itself governed by a mask (known finding F27 is about exactly this shape).
func underNestedMask(item, goField string) bool {
	_, combs, err := theRef()
	if err != nil {
		return false
	}
	c := combs[item]
	if c == nil {
		return false
	}
	norm := func(s string) string { return strings.ToLower(strings.ReplaceAll(s, "_", "")) }
	for _, f := range c.Fields {
		if f.Mask == nil || norm(f.Name) != norm(goField) {
			continue
		}
		for _, m := range c.Fields {
			if m.Name == f.Mask.Src && m.Mask != nil {
				return true
			}
		}
	}
	return false
}
