package gch

import (
	"errors"
	"fmt"
	"os"
	"strings"
	"sync"
	"testing"

	"github.com/VKCOM/tl/internal/tlast"
	"github.com/VKCOM/tl/verifh/pbt"
	"github.com/VKCOM/tl/verifh/refcodec"
	"github.com/VKCOM/tl/verifh/schemagen"
	"pgregory.net/rapid"
)

func init() {
	props["C06"] = propC06
	props["C11"] = propC11
}

// ---- the reference side: the schema of this set, read again by the harness' own model -----------------------------

var (
	refOnce  sync.Once
	refRes   *refcodec.Resolver
	refCombs map[string]*schemagen.Comb
	refErr   error
)

func theRef() (*refcodec.Resolver, map[string]*schemagen.Comb, error) {
	refOnce.Do(func() {
		s := &schemagen.Schema{}
		for _, f := range strings.Split(os.Getenv("VERIF_GEN_FILES"), ":") {
			if f == "" {
				continue
			}
			b, err := os.ReadFile(f)
			if err != nil {
				refErr = err
				return
			}
			tl, err := tlast.ParseTLFile(string(b), f, tlast.LexerOptions{LexerLanguage: tlast.TL1, AllowDirty: true})
			if err != nil {
				refErr = err
				return
			}
			for _, c := range tl.Combinators() {
				s.Combs = append(s.Combs, schemagen.FromTlast(c))
			}
		}
		refRes = refcodec.NewResolverRaw(s)
		refCombs = map[string]*schemagen.Comb{}
		for _, c := range s.Combs {
			refCombs[c.Name] = c
		}
	})
	return refRes, refCombs, refErr
}

// refItems: registry items the reference model can speak about (parameter-free constructors and functions).
func refItems(reg *Registry) ([]Item, error) {
	_, combs, err := theRef()
	if err != nil {
		return nil, err
	}
	var out []Item
	for _, it := range reg.Items {
		if c := combs[it.TLName()]; c != nil && len(c.Params) == 0 && it.HasTL1() {
			out = append(out, it)
		}
	}
	return out, nil
}

type refCase struct {
	Item      string `json:"item"`
	Seed      uint64 `json:"seed"`
	AltSeed   uint64 `json:"alt_seed,omitempty"`
	AltPct    int    `json:"alt_percent,omitempty"`
	Violation string `json:"violation,omitempty"`
	Site      int    `json:"site,omitempty"`
	Bytes     bool   `json:"bytes_variant,omitempty"`
	Prefill   uint64 `json:"destination_prefilled_with_seed,omitempty"` // C06: the destination held another value before
}

func refValue(c refCase) (*refcodec.Resolver, *schemagen.Comb, *refcodec.Value, []byte, *pbt.Result) {
	r, combs, err := theRef()
	if err != nil {
		return nil, nil, nil, nil, &pbt.Result{Err: fmt.Errorf("harness: the reference model cannot read the schema: %v", err)}
	}
	comb := combs[c.Item]
	if comb == nil {
		return nil, nil, nil, nil, &pbt.Result{Err: fmt.Errorf("harness: no combinator %q", c.Item)}
	}
	v, err := r.GenTop(refcodec.NewRand(c.Seed), comb)
	if err != nil {
		return nil, nil, nil, nil, &pbt.Result{Classes: []string{"reference-cannot-generate"}}
	}
	refcodec.CanonDicts(v)
	b, err := r.EncodeTop(comb, v)
	if err != nil {
		return nil, nil, nil, nil, &pbt.Result{Classes: []string{"reference-cannot-encode"}}
	}
	return r, comb, v, b, nil
}

var violations = []string{"unknown-key", "unknown-key-in-fieldless-variant", "duplicate-key", "array-length", "maybe-false-value", "true-false-with-bit"}

// ---- C06 JSON reader: documented alternative forms are accepted, documented invalid forms rejected ---------------

func checkC06(reg *Registry, c refCase) pbt.Result {
	r, comb, v, want, bad := refValue(c)
	if bad != nil {
		return *bad
	}
	it := reg.ByName(c.Item)
	if it == nil {
		return pbt.Result{Err: fmt.Errorf("no item %q", c.Item)}
	}
	tl2 := it.HasTL2()
	disabled := map[string]bool{}
	if pbt.Known("F36") && !pbt.Replaying() {
		disabled["dictionary-as-pairs"] = true
	}
	o := &refcodec.JSONOpts{Rnd: refcodec.NewRand(c.AltSeed), AltPercent: c.AltPct, Violation: c.Violation, Site: -1, Disabled: disabled}
	if c.Violation == "unknown-key-in-fieldless-variant" && pbt.Known("F37") && !pbt.Replaying() {
		return pbt.Result{Excluded: "F37"}
	}
	if c.Violation != "" {
		if c.Violation == "true-false-with-bit" && tl2 {
			return pbt.Result{Classes: []string{"violation-not-stated-for-tl2-types"}}
		}
		if _, err := r.JSONTop(o, comb, v); err != nil {
			return refUnsupported(err)
		}
		if o.Sites == 0 {
			return pbt.Result{Classes: []string{"no-site-for-" + c.Violation}}
		}
		o = &refcodec.JSONOpts{Rnd: refcodec.NewRand(c.AltSeed), AltPercent: c.AltPct, Violation: c.Violation, Site: c.Site % o.Sites, Disabled: disabled}
	}
	text, err := r.JSONTop(o, comb, v)
	if err != nil {
		return refUnsupported(err)
	}
	obj := Create(it, c.Bytes)
	if c.Prefill != 0 && c.Violation == "" {
		// what a form denotes does not depend on what the destination held before (a form that leaves something out
		// means the empty value, not "keep the old content")
		if e := call("FillRandom", func() { obj.FillRandom(NewGenerator(c.Prefill, 2)) }); e != nil {
			obj = Create(it, c.Bytes)
		}
	}
	rerr := readJSON(obj, text, JSONOpts{})
	if rerr != nil && strings.Contains(rerr.Error(), "panicked") {
		return pbt.Fail("%s: the JSON reader on %s: %v", c.Item, strHead(text), rerr)
	}
	if c.Violation != "" {
		if !o.Applied {
			return pbt.Result{Classes: []string{"no-site-for-" + c.Violation}}
		}
		if rerr == nil {
			return pbt.Fail("%s: the JSON reader accepts an invalid form (%s): %s", c.Item, c.Violation, strHead(text))
		}
		return pbt.Result{NonTrivial: true, Classes: []string{"rejected-" + c.Violation}}
	}
	if rerr != nil {
		return pbt.Fail("%s: the JSON reader rejects a documented form (alternatives used: %v): %v\n  json %s", c.Item, o.Alts, rerr, strHead(text))
	}
	got, err := tl1Boxed(obj)
	if err != nil {
		return pbt.Fail("%s: the value read from %s cannot be written as TL1: %v", c.Item, strHead(text), err)
	}
	if !eq(got, want) {
		return pbt.Fail("%s: JSON form (alternatives used: %v) does not denote the same value: %s\n  json      %s\n  read as   %s\n  reference %s", c.Item, o.Alts, diffAt(want, got), strHead(text), hexHead(got), hexHead(want))
	}
	cls := []string{"accepted"}
	if c.Prefill != 0 {
		cls = append(cls, "destination-held-another-value")
	}
	for k := range o.Alts {
		cls = append(cls, "alt-"+k)
	}
	for k := range o.Skipped {
		cls = append(cls, "known-finding-form-not-used: "+k)
	}
	return pbt.Result{NonTrivial: len(o.Alts) > 0, Classes: cls}
}

func refUnsupported(err error) pbt.Result {
	if u, ok := err.(refcodec.Unsupported); ok {
		return pbt.Result{Classes: []string{"reference-json-does-not-model: " + u.What}}
	}
	return pbt.Result{Err: fmt.Errorf("harness: reference JSON writer: %v", err)}
}

func genRefCase(rt *rapid.T, items []Item, neg bool) refCase {
	it := rapid.SampledFrom(items).Draw(rt, "item")
	c := refCase{Item: it.TLName(), Seed: rapid.Uint64().Draw(rt, "seed"), AltSeed: rapid.Uint64().Draw(rt, "altseed"),
		AltPct: rapid.SampledFrom([]int{0, 10, 30, 60}).Draw(rt, "altpct")}
	if hasBytesVariant(it) {
		c.Bytes = rapid.Bool().Draw(rt, "bytes")
	}
	if neg && rapid.IntRange(0, 2).Draw(rt, "prefill") == 0 {
		c.Prefill = rapid.Uint64Range(1, 1<<62).Draw(rt, "prefillseed")
	}
	if neg && rapid.IntRange(0, 3).Draw(rt, "negative") == 0 {
		c.Violation = rapid.SampledFrom(violations).Draw(rt, "violation")
		c.Site = rapid.IntRange(0, 50).Draw(rt, "site")
		c.AltPct = rapid.SampledFrom([]int{0, 10}).Draw(rt, "negaltpct")
	}
	return c
}

func propC06(t *testing.T, reg *Registry) {
	items, err := refItems(reg)
	if err != nil {
		t.Fatalf("harness: %v", err)
	}
	if len(items) == 0 {
		return
	}
	pbt.Run(t, "json-forms/"+reg.SetName, perType(len(items), 150, 4000), func(rt *rapid.T) refCase { return genRefCase(rt, items, true) }, func(c refCase) pbt.Result { return checkC06(reg, c) })
}

// ---- C11 wire formats match the reference codec --------------------------------------------------------------------

type wireCase struct {
	refCase
	Dir  string     `json:"direction"` // ref-to-gen | gen-to-ref | mutated | json-bridge | tl2-write | tl2-read
	Val  ValCase    `json:"val,omitempty"`
	Edit []byteEdit `json:"edits,omitempty"`
}

func checkC11(reg *Registry, c wireCase) pbt.Result {
	r, combs, err := theRef()
	if err != nil {
		return pbt.Result{Err: fmt.Errorf("harness: the reference model cannot read the schema: %v", err)}
	}
	comb := combs[c.Item]
	it := reg.ByName(c.Item)
	if comb == nil || it == nil {
		return pbt.Result{Err: fmt.Errorf("no item %q", c.Item)}
	}
	cls := []string{c.Dir}
	switch c.Dir {
	case "ref-to-gen", "json-bridge":
		_, _, v, want, bad := refValue(c.refCase)
		if bad != nil {
			return *bad
		}
		obj := Create(it, c.Bytes)
		if c.Dir == "json-bridge" { // the value reaches generated code by name (JSON), leaves it by position (TL1)
			text, err := r.JSONTop(&refcodec.JSONOpts{}, comb, v)
			if err != nil {
				return refUnsupported(err)
			}
			if err := readJSON(obj, text, JSONOpts{}); err != nil {
				return pbt.Fail("%s: canonical reference JSON is rejected: %v\n  json %s", c.Item, err, strHead(text))
			}
		} else {
			rest, err := readTL1Boxed(obj, append(append([]byte{}, want...), trailing...))
			if err != nil {
				if isF5(err) && pbt.KnownFor("F5", c.Item) && !pbt.Replaying() {
					return pbt.Result{Excluded: "F5"}
				}
				return pbt.Fail("%s: generated reader rejects the reference encoding %s: %v", c.Item, hexHead(want), err)
			}
			if !eq(rest, trailing) {
				return pbt.Fail("%s: generated reader consumed %d bytes of the %d-byte reference encoding %s", c.Item, len(want)+len(trailing)-len(rest), len(want), hexHead(want))
			}
		}
		got, err := tl1Boxed(obj)
		if err != nil {
			return pbt.Fail("%s: value read from the reference encoding cannot be written: %v", c.Item, err)
		}
		if !eq(got, want) {
			return pbt.Fail("%s (%s): generated code writes other bytes than the reference codec for the same value: %s\n  generated %s\n  reference %s", c.Item, c.Dir, diffAt(want, got), hexHead(got), hexHead(want))
		}
		return pbt.Result{NonTrivial: len(want) >= 12, Classes: cls}
	case "tl2-write", "tl2-read":
		if !it.HasTL2() {
			return pbt.Result{Classes: []string{"format-not-generated"}}
		}
		if len(comb.Fields) == 0 && !comb.IsFunc {
			// a field-less constructor as a registry item of its own: generated code treats it as a type without a
			// representation (it is written by the union that contains it); nothing to compare
			return pbt.Result{Classes: []string{"fieldless-constructor-item-skipped"}}
		}
		_, _, v, want1, bad := refValue(c.refCase)
		if bad != nil {
			return *bad
		}
		want2, err := r.TL2Top(comb, v)
		if err != nil {
			if u, ok := err.(refcodec.Unsupported); ok {
				return pbt.Result{Classes: []string{"reference-tl2-does-not-model: " + u.What}}
			}
			return pbt.Result{Err: fmt.Errorf("harness: reference TL2 writer: %v", err)}
		}
		obj := Create(it, c.Bytes)
		if c.Dir == "tl2-write" { // the value enters as reference TL1 bytes, leaves as TL2
			if rest, err := readTL1Boxed(obj, want1); err != nil || len(rest) != 0 {
				if isF5(err) && pbt.KnownFor("F5", c.Item) && !pbt.Replaying() {
					return pbt.Result{Excluded: "F5"}
				}
				return pbt.Fail("%s: generated reader rejects the reference TL1 encoding %s: %v", c.Item, hexHead(want1), err)
			}
			got, err := tl2(obj, nil)
			if err != nil {
				return pbt.Fail("%s: WriteTL2 of the value read from %s: %v", c.Item, hexHead(want1), err)
			}
			if !eq(got, want2) {
				return pbt.Fail("%s: generated code writes other TL2 bytes than the reference writer for the same value: %s\n  generated %s\n  reference %s\n  (TL1 %s)", c.Item, diffAt(want2, got), hexHead(got), hexHead(want2), hexHead(want1))
			}
			return pbt.Result{NonTrivial: len(want2) >= 6, Classes: cls}
		}
		rest, err := readTL2(obj, append(append([]byte{}, want2...), trailing...))
		if err != nil {
			return pbt.Fail("%s: generated TL2 reader rejects the reference encoding %s: %v", c.Item, hexHead(want2), err)
		}
		if !eq(rest, trailing) {
			return pbt.Fail("%s: generated TL2 reader consumed %d bytes of the %d-byte reference encoding %s", c.Item, len(want2)+len(trailing)-len(rest), len(want2), hexHead(want2))
		}
		got, err := tl1Boxed(obj)
		if err != nil {
			return pbt.Fail("%s: the value read from reference TL2 %s cannot be written as TL1: %v", c.Item, hexHead(want2), err)
		}
		if !eq(got, want1) {
			return pbt.Fail("%s: reference TL2 bytes %s are read as another value: TL1 %s\n  generated %s\n  reference %s", c.Item, hexHead(want2), diffAt(want1, got), hexHead(got), hexHead(want1))
		}
		return pbt.Result{NonTrivial: len(want2) >= 6, Classes: cls}
	case "tl2-bad-variant":
		if !it.HasTL2() {
			return pbt.Result{Classes: []string{"format-not-generated"}}
		}
		_, _, v, _, bad := refValue(c.refCase)
		if bad != nil {
			return *bad
		}
		count := &refcodec.BadVariant{Site: -1}
		refcodec.TL2Bad = count
		_, err := r.TL2Top(comb, v)
		refcodec.TL2Bad = nil
		if err != nil {
			if u, ok := err.(refcodec.Unsupported); ok {
				return pbt.Result{Classes: []string{"reference-tl2-does-not-model: " + u.What}}
			}
			return pbt.Result{Err: fmt.Errorf("harness: reference TL2 writer: %v", err)}
		}
		// the item itself may be one constructor of a union: its own reader is that variant's and does not look at the
		// index; the statement is about union-typed objects inside the value
		first := 0
		if !comb.IsFunc && r.IsUnionMember(comb) {
			first = 1
		}
		if count.Seen <= first {
			return pbt.Result{Classes: []string{"no-union-in-the-value"}}
		}
		placed := &refcodec.BadVariant{Site: first + c.Site%(count.Seen-first)}
		refcodec.TL2Bad = placed
		enc, err := r.TL2Top(comb, v)
		refcodec.TL2Bad = nil
		if err != nil || !placed.Applied {
			return pbt.Result{Classes: []string{"no-union-in-the-value"}}
		}
		obj := Create(it, c.Bytes)
		if _, err := readTL2(obj, enc); err == nil {
			return pbt.Fail("%s: the generated TL2 reader accepts an object whose variant index equals the number of variants (union object %d of the value): %s", c.Item, placed.Site, hexHead(enc))
		} else if strings.Contains(err.Error(), "panicked") {
			return pbt.Fail("%s: the generated TL2 reader on %s: %v", c.Item, hexHead(enc), err)
		}
		return pbt.Result{NonTrivial: true, Classes: []string{"tl2-bad-variant-rejected"}}
	case "gen-to-ref", "mutated":
		obj, _, err := reg.Make(c.Val)
		if err != nil {
			return pbt.Result{Err: err}
		}
		in, err := tl1Boxed(obj)
		if err != nil {
			return pbt.Result{Classes: []string{"source-not-encodable"}}
		}
		if c.Dir == "mutated" {
			in = applyEdits(in, c.Edit)
		}
		dec := Create(it, c.Val.Bytes)
		gRest, gErr := readTL1Boxed(dec, in)
		if gErr != nil && strings.Contains(gErr.Error(), "panicked") {
			return pbt.Result{Classes: []string{"generated-reader-panicked"}} // C08's business
		}
		rv, rRest, rErr := r.DecodeTop(in, comb)
		if errors.Is(rErr, refcodec.ErrBudget) {
			return pbt.Result{Classes: append(cls, "reference-decoder-budget-exceeded")}
		}
		if gErr != nil && rErr == nil && isF5(gErr) && pbt.KnownFor("F5", c.Item) && !pbt.Replaying() {
			return pbt.Result{Excluded: "F5"}
		}
		if (gErr == nil) != (rErr == nil) {
			return pbt.Fail("%s (%s): verdicts differ on %s: generated reader: %v; reference decoder: %v", c.Item, c.Dir, hexHead(in), gErr, rErr)
		}
		if gErr != nil {
			return pbt.Result{NonTrivial: len(in) >= 8, Classes: append(cls, "both-rejected")}
		}
		if len(gRest) != len(rRest) {
			return pbt.Fail("%s (%s): both accept %s but consume different lengths: generated leaves %d bytes, reference %d", c.Item, c.Dir, hexHead(in), len(gRest), len(rRest))
		}
		consumed := in[:len(in)-len(rRest)]
		back, err := r.EncodeTop(comb, rv)
		if err != nil || !eq(back, consumed) {
			return pbt.Fail("%s (%s): the reference codec does not reproduce an encoding both sides accept (%v): %s", c.Item, c.Dir, err, diffAt(consumed, back))
		}
		return pbt.Result{NonTrivial: len(in) >= 12, Classes: append(cls, "both-accepted")}
	}
	return pbt.Result{Err: fmt.Errorf("bad direction %q", c.Dir)}
}

func propC11(t *testing.T, reg *Registry) {
	items, err := refItems(reg)
	if err != nil {
		t.Fatalf("harness: %v", err)
	}
	if len(items) == 0 {
		return
	}
	pbt.Run(t, "reference-codec/"+reg.SetName, perType(len(items), 200, 5000), func(rt *rapid.T) wireCase {
		c := wireCase{Dir: rapid.SampledFrom([]string{"ref-to-gen", "ref-to-gen", "json-bridge", "gen-to-ref", "mutated", "mutated", "tl2-write", "tl2-write", "tl2-read", "tl2-bad-variant"}).Draw(rt, "dir")}
		switch c.Dir {
		case "ref-to-gen", "json-bridge", "tl2-write", "tl2-read", "tl2-bad-variant":
			c.refCase = genRefCase(rt, items, false)
			c.refCase.AltPct, c.refCase.AltSeed = 0, 0
			if c.Dir == "tl2-bad-variant" {
				c.refCase.Site = rapid.IntRange(0, 50).Draw(rt, "site")
			}
		default:
			c.Val = genVal(rt, items, false)
			c.Item = c.Val.Item
			if c.Dir == "mutated" {
				c.Edit = genEdits(rt, 2)
			}
		}
		return c
	}, func(c wireCase) pbt.Result { return checkC11(reg, c) })
}
