// Package gch is the generic harness for freshly generated Go code: the glue file generated next to the code adapts
// meta.GetAllTLItems() to []Item; every property then works through these interfaces and reflection only.
package gch

import "github.com/VKCOM/tl/pkg/basictl"

// Object mirrors <generated>/internal/metainternal.Object (identical method set over /repo/pkg/basictl types).
type Object interface {
	TLName() string
	TLTag() uint32
	String() string
	FillRandom(rg *basictl.RandGenerator)
	ReadTL1(w []byte) ([]byte, error)
	ReadTL1Boxed(w []byte) ([]byte, error)
	WriteTL1General(w []byte) ([]byte, error)
	WriteTL1BoxedGeneral(w []byte) ([]byte, error)
	MarshalJSON() ([]byte, error)
	UnmarshalJSON([]byte) error
	ReadJSONGeneral(jctx *basictl.JSONReadContext, in *basictl.JsonLexer) error
	WriteJSONGeneral(jctx *basictl.JSONWriteContext, w []byte) ([]byte, error)
}

// TL2Object: the TL2 methods exist only in code generated with a TL2 whitelist (asserted where needed, so that sets
// generated without TL2 fit the same harness).
type TL2Object interface {
	ReadTL2(r []byte, tctx *basictl.TL2ReadContext) ([]byte, error)
	WriteTL2(w []byte, tctx *basictl.TL2WriteContext) []byte
}

type Function interface {
	Object
	FillRandomResultTL1(rg *basictl.RandGenerator, w []byte) ([]byte, error)
	ReadResultTL1WriteResultJSON(jctx *basictl.JSONWriteContext, r []byte, w []byte) ([]byte, []byte, error)
	ReadResultJSONWriteResultTL1(jctx *basictl.JSONReadContext, r []byte, w []byte) ([]byte, []byte, error)
}

type TL2Function interface {
	ReadResultTL1WriteResultTL2(tctx *basictl.TL2WriteContext, r []byte, w []byte) ([]byte, []byte, error)
	ReadResultTL2WriteResultTL1(tctx *basictl.TL2ReadContext, r []byte, w []byte) ([]byte, []byte, error)
	ReadResultTL2WriteResultJSON(tctx *basictl.TL2ReadContext, jctx *basictl.JSONWriteContext, r []byte, w []byte) ([]byte, []byte, error)
	ReadResultJSONWriteResultTL2(jctx *basictl.JSONReadContext, tctx *basictl.TL2WriteContext, r []byte, w []byte) ([]byte, []byte, error)
}

// Item mirrors metainternal.TLItem through the generated glue.
type Item interface {
	TLTag() uint32
	TLName() string
	HasTL1() bool
	HasTL2() bool
	IsFunction() bool
	CreateObject() Object
	CreateObjectBytes() Object
	CreateFunction() Function
	CreateFunctionBytes() Function
	AnnotationBits() uint32 // any=1 internal=2 kphp=4 read=8 readwrite=16 write=32
}

// Registry is the generated registry as seen through the glue.
type Registry struct {
	Items  []Item
	ByName func(string) Item // nil result: not found
	ByTag  func(uint32) Item
	// schema context (set by the glue from environment): used in replay files and by schema-aware checks
	SetName string
}
