package gch

import (
	"fmt"
	"testing"

	"github.com/VKCOM/tl/verifh/pbt"
	"pgregory.net/rapid"
)

func init() {
	props["C09"] = propC09
	props["C10"] = propC10
}

// ---- C09 decoding into a reused object equals decoding into a fresh one -------------------------------

type reuseStep struct {
	Op      string     `json:"op"` // tl1 tl1boxed tl2 json reset
	Seed    uint64     `json:"seed"`
	Profile int        `json:"profile"`
	Mut     int        `json:"mut"`
	Edit    []byteEdit `json:"edits,omitempty"`
}

type reuseCase struct {
	Item  string      `json:"item"`
	Bytes bool        `json:"bytes_variant,omitempty"`
	Steps []reuseStep `json:"steps"`
}

func encodeAs(o Object, op string) ([]byte, error) {
	switch op {
	case "tl1":
		return tl1(o)
	case "tl1boxed":
		return tl1Boxed(o)
	case "tl2":
		return tl2(o, nil)
	default:
		return jsonOf(o, JSONOpts{})
	}
}

func decodeAs(o Object, op string, in []byte) error {
	var rest []byte
	var err error
	switch op {
	case "tl1":
		rest, err = readTL1(o, in)
	case "tl1boxed":
		rest, err = readTL1Boxed(o, in)
	case "tl2":
		rest, err = readTL2(o, in)
	default:
		return readJSON(o, in, JSONOpts{})
	}
	if err == nil && len(rest) != 0 {
		return fmt.Errorf("%d bytes left", len(rest))
	}
	return err
}

// sameEncodings compares every available encoding of two objects.
func sameEncodings(it Item, a, b Object) error {
	if it.HasTL1() {
		x, e1 := tl1(a)
		y, e2 := tl1(b)
		if (e1 == nil) != (e2 == nil) || (e1 == nil && !eq(x, y)) {
			return fmt.Errorf("TL1 differs: %s (errs %v / %v)", diffAt(x, y), e1, e2)
		}
	}
	if it.HasTL2() {
		x, e1 := tl2(a, nil)
		y, e2 := tl2(b, nil)
		if (e1 == nil) != (e2 == nil) || (e1 == nil && !eq(x, y)) {
			return fmt.Errorf("TL2 differs: %s (errs %v / %v)", diffAt(x, y), e1, e2)
		}
	}
	x, e1 := jsonOf(a, JSONOpts{})
	y, e2 := jsonOf(b, JSONOpts{})
	if (e1 == nil) != (e2 == nil) || (e1 == nil && !eq(x, y)) {
		return fmt.Errorf("JSON differs: %s vs %s (errs %v / %v)", strHead(x), strHead(y), e1, e2)
	}
	return nil
}

func checkC09(reg *Registry, c reuseCase) pbt.Result {
	it := reg.Find(c.Item)
	if it == nil {
		return pbt.Fail("item %q not in registry", c.Item)
	}
	reused := Create(it, c.Bytes)
	decodes, shrank, prevLen := 0, false, -1
	for i, st := range c.Steps {
		where := fmt.Sprintf("%s step %d (%s)", c.Item, i, st.Op)
		if st.Op == "reset" {
			r, ok := reused.(interface{ Reset() })
			if !ok {
				continue
			}
			if err := call("Reset", r.Reset); err != nil {
				return pbt.Fail("%s: %v", where, err)
			}
			if err := sameEncodings(it, reused, Create(it, c.Bytes)); err != nil {
				return pbt.Fail("%s: object after Reset differs from a fresh one: %v", where, err)
			}
			continue
		}
		if (st.Op == "tl2" && !it.HasTL2()) || ((st.Op == "tl1" || st.Op == "tl1boxed") && !it.HasTL1()) {
			continue
		}
		src, _, err := reg.Make(ValCase{Item: c.Item, Bytes: c.Bytes, Seed: st.Seed, Profile: st.Profile, Mut: st.Mut})
		if err != nil {
			return pbt.Result{Err: err}
		}
		if pbt.Known("F25") && !pbt.Replaying() && st.Op == "json" && HasNonUTF8DictKey(src) {
			continue
		}
		in, err := encodeAs(src, st.Op)
		if err != nil {
			continue
		}
		if st.Op != "json" {
			in = applyEdits(in, st.Edit)
		}
		fresh := Create(it, c.Bytes)
		e1 := decodeAs(reused, st.Op, in)
		e2 := decodeAs(fresh, st.Op, in)
		if (e1 == nil) != (e2 == nil) {
			return pbt.Fail("%s: verdict differs: reused object %v, fresh object %v; input %s", where, e1, e2, hexHead(in))
		}
		if e1 != nil {
			continue // contents after a failed decode are unspecified; the object keeps being reused
		}
		decodes++
		if prevLen >= 0 && len(in) < prevLen {
			shrank = true
		}
		prevLen = len(in)
		if err := sameEncodings(it, reused, fresh); err != nil {
			return pbt.Fail("%s: object reused after %d earlier steps differs from a fresh object decoding the same input %s: %v", where, i, hexHead(in), err)
		}
	}
	cls := []string{}
	if shrank {
		cls = append(cls, "later-value-smaller")
	}
	return pbt.Result{NonTrivial: decodes >= 3 && shrank, Classes: cls}
}

func propC09(t *testing.T, reg *Registry) {
	items := reg.Items
	pbt.Run(t, "reuse/"+reg.SetName, perType(len(items), 40, 600), func(rt *rapid.T) reuseCase {
		it := items[rapid.IntRange(0, len(items)-1).Draw(rt, "item")]
		c := reuseCase{Item: it.TLName()}
		if rapid.IntRange(0, 2).Draw(rt, "variant") == 0 && hasBytesVariant(it) {
			c.Bytes = true
		}
		n := rapid.IntRange(2, 7).Draw(rt, "steps")
		for i := 0; i < n; i++ {
			st := reuseStep{
				Op:      rapid.SampledFrom([]string{"tl1", "tl1", "tl1boxed", "tl2", "tl2", "json", "json", "reset"}).Draw(rt, "op"),
				Seed:    rapid.Uint64().Draw(rt, "seed"),
				Profile: rapid.SampledFrom([]int{0, 0, 1, 2, 3, 4, 5, 6}).Draw(rt, "profile"),
				Mut:     rapid.SampledFrom([]int{0, 0, 2}).Draw(rt, "mut"),
			}
			if rapid.IntRange(0, 4).Draw(rt, "corrupt") == 0 {
				st.Edit = genEdits(rt, 2)
			}
			c.Steps = append(c.Steps, st)
		}
		return c
	}, func(c reuseCase) pbt.Result { return checkC09(reg, c) })
}

// ---- C10 []byte variants behave like string variants -------------------------------------------------------

type variantCase struct {
	ValCase
	Format string     `json:"format"` // tl1 tl2 json
	Edit   []byteEdit `json:"edits,omitempty"`
}

func checkC10(reg *Registry, c variantCase) pbt.Result {
	c.ValCase.Bytes = false
	src, it, err := reg.Make(c.ValCase)
	if err != nil {
		return pbt.Result{Err: err}
	}
	if (c.Format == "tl2" && !it.HasTL2()) || (c.Format == "tl1" && !it.HasTL1()) {
		return pbt.Result{Classes: []string{"format-not-generated"}}
	}
	if pbt.Known("F25") && !pbt.Replaying() && HasNonUTF8DictKey(src) {
		return pbt.Result{Excluded: "F25"}
	}
	in, err := encodeAs(src, c.Format)
	if err != nil {
		return pbt.Fail("%s: cannot encode the string-variant value as %s: %v", c.Item, c.Format, err)
	}
	if c.Format != "json" {
		in = applyEdits(in, c.Edit)
	}
	s, b := it.CreateObject(), it.CreateObjectBytes()
	e1 := decodeAs(s, c.Format, in)
	e2 := decodeAs(b, c.Format, in)
	if (e1 == nil) != (e2 == nil) {
		return pbt.Fail("%s: variants disagree on %s input %s: string variant %v, []byte variant %v", c.Item, c.Format, hexHead(in), e1, e2)
	}
	cls := []string{"format-" + c.Format}
	if e1 != nil {
		return pbt.Result{Classes: append(cls, "rejected")}
	}
	// with an unmodified encoding dictionaries are sorted and duplicate-free, so all encodings must coincide;
	// for mutated inputs the comparison is kept only for types without map-backed dictionaries
	if len(c.Edit) == 0 || !HasMap(s) {
		if err := sameEncodings(it, s, b); err != nil {
			return pbt.Fail("%s: string and []byte variants decode %s input %s to different content: %v", c.Item, c.Format, hexHead(in), err)
		}
	}
	zero, _ := encodeAs(it.CreateObject(), c.Format)
	return pbt.Result{NonTrivial: !eq(zero, in) && len(in) >= 4, Classes: append(cls, "accepted")}
}

func propC10(t *testing.T, reg *Registry) {
	items := filterItems(reg, hasBytesVariant)
	if len(items) == 0 {
		return
	}
	pbt.Run(t, "bytes-variant/"+reg.SetName, perType(len(items), 300, 3000), func(rt *rapid.T) variantCase {
		c := variantCase{ValCase: genVal(rt, items, false), Format: rapid.SampledFrom([]string{"tl1", "tl2", "json"}).Draw(rt, "format")}
		if rapid.IntRange(0, 3).Draw(rt, "mutate") == 0 {
			c.Edit = genEdits(rt, 2)
		}
		return c
	}, func(c variantCase) pbt.Result { return checkC10(reg, c) })
}
