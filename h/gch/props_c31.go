package gch

import (
	"fmt"
	"strings"
	"testing"

	"github.com/VKCOM/tl/verifh/pbt"
	"pgregory.net/rapid"
)

func init() { props["C31"] = propC31 }

// ---- C31 C++ generated serializers agree with the Go serializers --------------------------------------------------

func checkC31(reg *Registry, c bytesCase) pbt.Result {
	in, it, err := c.input(reg)
	if err != nil {
		return pbt.Result{Err: err}
	}
	dec := Create(it, false)
	var gRest []byte
	var gErr error
	if c.Boxed {
		gRest, gErr = readTL1Boxed(dec, in)
	} else {
		gRest, gErr = readTL1(dec, in)
	}
	if gErr != nil && strings.Contains(gErr.Error(), "panicked") {
		return pbt.Result{Classes: []string{"go-reader-panicked"}} // C08's business
	}
	ans, died, err := theCpp.Do(it.TLName(), c.Boxed, in)
	if err != nil {
		return pbt.Result{Err: fmt.Errorf("harness: C++ runner: %v", err)}
	}
	what := "mutated"
	if len(c.Edit) == 0 && len(c.Raw) == 0 {
		what = "go-written"
	}
	if died != "" && gErr != nil && pbt.Known("F38") && !pbt.Replaying() &&
		(strings.Contains(died, "out of memory") || strings.Contains(died, "failed to allocate") || strings.Contains(died, "bad_alloc") || strings.Contains(died, "length_error") || strings.Contains(died, "exceeds maximum supported size")) {
		return pbt.Result{Excluded: "F38"}
	}
	if died != "" {
		return pbt.Fail("%s: C++ reader/writer on %s input %s (boxed=%v): %s", c.Item, what, hexHead(in), c.Boxed, died)
	}
	if ans.Verdict == "noitem" {
		return pbt.Result{Classes: []string{"item-not-in-the-c++-registry"}}
	}
	cls := []string{what}
	if gErr != nil {
		if isF5(gErr) && pbt.KnownFor("F5", c.Item) && !pbt.Replaying() {
			return pbt.Result{Excluded: "F5"}
		}
		if ans.Verdict != "reject" && strings.Contains(gErr.Error(), "non-canonical") && pbt.Known("F39") && !pbt.Replaying() {
			return pbt.Result{Excluded: "F39"}
		}
		if ans.Verdict != "reject" {
			return pbt.Fail("%s: the Go reader rejects %s (%v) but the C++ reader accepts it (boxed=%v, consumed %d)", c.Item, hexHead(in), gErr, c.Boxed, ans.Consumed)
		}
		return pbt.Result{NonTrivial: len(in) >= 8, Classes: append(cls, "both-rejected")}
	}
	consumed := in[:len(in)-len(gRest)]
	var gw []byte
	if c.Boxed {
		gw, err = tl1Boxed(dec)
	} else {
		gw, err = tl1(dec)
	}
	if err != nil {
		return pbt.Result{Classes: append(cls, "go-cannot-rewrite")}
	}
	canonical := eq(gw, consumed)
	if !canonical {
		// Go accepted a non-canonical form (dictionary order/duplicates): not bytes the Go code writes; C++ keeps
		// dictionaries as vectors, so only "accepted by both or C++ stricter" can be said
		return pbt.Result{Classes: append(cls, "go-accepted-non-canonical")}
	}
	if ans.Verdict == "reject" {
		return pbt.Fail("%s: bytes the Go code writes (%s, boxed=%v) are rejected by the C++ reader", c.Item, hexHead(consumed), c.Boxed)
	}
	if ans.Verdict == "writefail" {
		return pbt.Fail("%s: the C++ code read %s (boxed=%v) but cannot write the value back", c.Item, hexHead(consumed), c.Boxed)
	}
	if ans.Consumed != len(consumed) {
		return pbt.Fail("%s: Go consumes %d bytes of %s, C++ consumes %d (boxed=%v)", c.Item, len(consumed), hexHead(in), ans.Consumed, c.Boxed)
	}
	if !eq(ans.Out, gw) {
		return pbt.Fail("%s: C++ writes back other bytes than Go wrote (boxed=%v): %s\n  go  %s\n  c++ %s", c.Item, c.Boxed, diffAt(gw, ans.Out), hexHead(gw), hexHead(ans.Out))
	}
	return pbt.Result{NonTrivial: len(in) >= 8, Classes: append(cls, "both-accepted")}
}

func propC31(t *testing.T, reg *Registry) {
	items := filterItems(reg, func(it Item) bool {
		if !it.HasTL1() {
			return false
		}
		// builtin wrappers and Bool constructors are registry items in Go but not in the C++ meta: nothing to compare
		a, died, err := theCpp.Do(it.TLName(), true, nil)
		return err == nil && died == "" && a.Verdict != "noitem"
	})
	if len(items) == 0 {
		t.Fatalf("harness: no item of set %s is known to the C++ registry", reg.SetName)
	}
	pbt.Run(t, "cpp-agreement/"+reg.SetName, perType(len(items), 150, 4000), func(rt *rapid.T) bytesCase {
		c := genBytesCase(rt, items, 2)
		c.ValCase.Bytes = false
		return c
	}, func(c bytesCase) pbt.Result { return checkC31(reg, c) })
}
