package gch

import (
	"fmt"
	"math"
	"reflect"
	"strings"
	"unsafe"

	"github.com/VKCOM/tl/pkg/basictl"
)

// ---- deterministic random source handed to generated FillRandom --------------------

type Rnd struct {
	s       uint64
	profile int
}

func NewRnd(seed uint64, profile int) *Rnd { return &Rnd{s: seed*0x9E3779B97F4A7C15 + 0x1234567, profile: profile} }

func (r *Rnd) next() uint64 {
	r.s += 0x9E3779B97F4A7C15
	z := r.s
	z = (z ^ (z >> 30)) * 0xBF58476D1CE4E5B9
	z = (z ^ (z >> 27)) * 0x94D049BB133111EB
	return z ^ (z >> 31)
}

var int32Edges = []int32{0, 1, -1, math.MaxInt32, math.MinInt32, 254, 255, 256, 65535, -65536}
var int64Edges = []int64{0, 1, -1, math.MaxInt64, math.MinInt64, math.MaxInt32, math.MinInt32, 1 << 53, -(1 << 53) - 1}
var f64Edges = []uint64{0, 1 << 63, 0x7FF0000000000000, 0xFFF0000000000000, 1, 0x000FFFFFFFFFFFFF, 0x7FEFFFFFFFFFFFFF, 0x3FF0000000000000, 0x4340000000000000, 0x3FB999999999999A}

func (r *Rnd) Uint32() uint32 { return uint32(r.next() >> 17) }
func (r *Rnd) Int31() int32 {
	v := r.next()
	if v%5 == 0 {
		return int32Edges[(v>>8)%uint64(len(int32Edges))]
	}
	return int32(v >> 20)
}
func (r *Rnd) Int63() int64 {
	v := r.next()
	if v%5 == 0 {
		return int64Edges[(v>>8)%uint64(len(int64Edges))]
	}
	return int64(r.next())
}

// NormFloat64 returns arbitrary finite and infinite doubles (NaNs are introduced separately by the leaf mutator so
// that the checks know when NaN normalisation applies).
func (r *Rnd) NormFloat64() float64 {
	v := r.next()
	if v%4 == 0 {
		return math.Float64frombits(f64Edges[(v>>8)%uint64(len(f64Edges))])
	}
	f := math.Float64frombits(r.next())
	if math.IsNaN(f) {
		return 1.5
	}
	return f
}

// The generated FillRandom bounds recursion by making RandomUint return 0 at the depth limit; a handler must keep
// 0 as 0 or it would remove that bound (a harness-made non-termination, not a defect of the code under test).
func allOnesUnlessDepthLimit(v uint32, bits uint32) uint32 {
	if v == 0 {
		return 0
	}
	return bits
}

// NewGenerator builds a RandGenerator with one of several size / field-mask profiles.
func NewGenerator(seed uint64, profile int) *basictl.RandGenerator {
	r := NewRnd(seed, profile)
	ctx := basictl.RandgeneratorContext{}
	switch profile % 7 {
	case 1:
		ctx.SizeHandler = func(v uint32) uint32 { return v % 4 }
	case 2:
		ctx.FieldMaskHandler = allOnesUnlessDepthLimit
	case 3:
		ctx.FieldMaskHandler = func(v uint32, bits uint32) uint32 { return 0 }
	case 4:
		ctx.SizeHandler = func(v uint32) uint32 { return 0 }
	case 5:
		ctx.SizeHandler = func(v uint32) uint32 { return v % 40 }
		ctx.FieldMaskHandler = allOnesUnlessDepthLimit
	case 6:
		ctx.SizeHandler = func(v uint32) uint32 {
			if v == 0 {
				return 0
			}
			return 1 + v%3
		}
	}
	return basictl.NewRandGeneratorWithContext(r, ctx)
}

// ---- value cases ---------------------------------------------------------------------

// ValCase names one value of one item reproducibly: FillRandom under (Seed, Profile), then Mut reflection leaf mutations.
type ValCase struct {
	Item    string `json:"item"`
	Bytes   bool   `json:"bytes_variant,omitempty"`
	Seed    uint64 `json:"seed"`
	Profile int    `json:"profile"`
	Mut     int    `json:"leaf_mutations"`
	StrLen  int    `json:"force_string_len,omitempty"`
	NaN     bool   `json:"allow_nan,omitempty"`
}

func (reg *Registry) Find(name string) Item {
	if it := reg.ByName(name); it != nil {
		return it
	}
	return nil
}

func Create(it Item, bytesVariant bool) Object {
	if bytesVariant {
		return it.CreateObjectBytes()
	}
	return it.CreateObject()
}

// Make builds the value named by c.
func (reg *Registry) Make(c ValCase) (Object, Item, error) {
	it := reg.Find(c.Item)
	if it == nil {
		return nil, nil, fmt.Errorf("item %q not in registry", c.Item)
	}
	obj := Create(it, c.Bytes)
	obj.FillRandom(NewGenerator(c.Seed, c.Profile))
	// enum elements are served by the registry's own *TLItemImpl: its exported fields are registry data, not a value
	if c.Mut > 0 && !strings.HasSuffix(fmt.Sprintf("%T", obj), "TLItemImpl") {
		m := &mutator{r: NewRnd(c.Seed^0xabcdef, 0), budget: c.Mut, nan: c.NaN}
		leaves := m.collect(reflect.ValueOf(obj))
		maps := collectStringKeyMaps(reflect.ValueOf(obj))
		for i := 0; i < c.Mut && len(leaves) > 0; i++ {
			if len(maps) > 0 && m.r.next()%4 == 0 {
				m.rekey(maps[int(m.r.next()%uint64(len(maps)))]) // map-backed dictionaries: give one entry a special key
				continue
			}
			m.mutateLeaf(leaves[int(m.r.next()%uint64(len(leaves)))])
		}
	}
	// boundary strings: every string / []byte leaf becomes StrLen bytes of 'x'
	if c.StrLen > 0 && !strings.HasSuffix(fmt.Sprintf("%T", obj), "TLItemImpl") {
		m := &mutator{r: NewRnd(1, 0)}
		for _, l := range m.collect(reflect.ValueOf(obj)) {
			switch l.Kind() {
			case reflect.String:
				l.SetString(strings.Repeat("x", c.StrLen))
			case reflect.Slice:
				l.SetBytes([]byte(strings.Repeat("x", c.StrLen)))
			}
		}
	}
	return obj, it, nil
}

var stringEdges = []string{"", "a", "\x00", "\xff", "\xff\xfe\xfd", "é", " x ", "\"\\/\b\f\n\r\t", "\x7f\x80", "\xed\xa0\x80", "\xf4\x90\x80\x80", "ключ", "<>&'", strings.Repeat("x", 253), strings.Repeat("y", 254), strings.Repeat("\xc3\xa9", 128), "NaN", "{\"base64\":\"\"}", "a\rb\r\n"}

type mutator struct {
	r      *Rnd
	budget int
	nan    bool
}

// collect returns settable leaves (strings, byte slices, floats, signed ints, bools) reachable from v.
// uint32 fields are left alone: they may be field masks or sizes whose value other fields depend on.
func (m *mutator) collect(v reflect.Value) []reflect.Value {
	var out []reflect.Value
	var walk func(v reflect.Value, depth int)
	walk = func(v reflect.Value, depth int) {
		if depth > 40 || len(out) > 4000 {
			return
		}
		switch v.Kind() {
		case reflect.Ptr, reflect.Interface:
			if !v.IsNil() {
				walk(v.Elem(), depth+1)
			}
		case reflect.Struct:
			t := v.Type()
			for i := 0; i < v.NumField(); i++ {
				f := t.Field(i)
				if strings.HasPrefix(f.Name, "tl2mask") || f.Name == "index" {
					continue
				}
				fv := v.Field(i)
				if !fv.CanSet() {
					if !fv.CanAddr() {
						continue
					}
					fv = reflect.NewAt(fv.Type(), unsafe.Pointer(fv.UnsafeAddr())).Elem()
				}
				walk(fv, depth+1)
			}
		case reflect.Slice:
			if v.Type().Elem().Kind() == reflect.Uint8 {
				out = append(out, v)
				return
			}
			for i := 0; i < v.Len(); i++ {
				walk(v.Index(i), depth+1)
			}
		case reflect.Array:
			for i := 0; i < v.Len(); i++ {
				walk(v.Index(i), depth+1)
			}
		case reflect.Map:
			// values of maps are not addressable; handled by the dictionary-specific generators
		// bools are left alone as well: Maybe.Ok=true over a zero Value can contradict a size parameter
		case reflect.String, reflect.Float32, reflect.Float64, reflect.Int32, reflect.Int64:
			if v.CanSet() {
				out = append(out, v)
			}
		}
	}
	walk(v, 0)
	return out
}

func (m *mutator) bytes() []byte {
	v := m.r.next()
	if v%29 == 7 {
		// lengths at which the TL1 string header and the TL2 size prefix change their form
		n := []int{253, 254, 255, 256, 65789, 65790, 65791}[(v>>8)%7]
		b := make([]byte, n)
		for i := range b {
			b[i] = 'a' + byte((uint64(i)+(v>>16))%23)
		}
		return b
	}
	if v%3 != 0 {
		return []byte(stringEdges[(v>>8)%uint64(len(stringEdges))])
	}
	n := int((v >> 8) % 40)
	b := make([]byte, n)
	for i := range b {
		b[i] = byte(m.r.next() >> 11)
	}
	return b
}

func (m *mutator) mutateLeaf(v reflect.Value) {
	x := m.r.next()
	switch v.Kind() {
	case reflect.String:
		v.SetString(string(m.bytes()))
	case reflect.Slice:
		v.SetBytes(m.bytes())
	case reflect.Float32:
		bits := uint32(m.r.next())
		if x%3 == 0 {
			bits = []uint32{0, 1 << 31, 0x7F800000, 0xFF800000, 1, 0x7F7FFFFF, 0x00800000, 0x3F800000}[(x>>8)%8]
		}
		f := math.Float32frombits(bits)
		if f != f && !m.nan {
			f = -0.25
		}
		v.SetFloat(float64(f))
	case reflect.Float64:
		bits := m.r.next()
		if x%3 == 0 {
			bits = f64Edges[(x>>8)%uint64(len(f64Edges))]
		}
		f := math.Float64frombits(bits)
		if f != f && !m.nan {
			f = -0.125
		}
		v.SetFloat(f)
	case reflect.Int32:
		if x%2 == 0 {
			v.SetInt(int64(int32Edges[(x>>8)%uint64(len(int32Edges))]))
		} else {
			v.SetInt(int64(int32(m.r.next())))
		}
	case reflect.Int64:
		if x%2 == 0 {
			v.SetInt(int64Edges[(x>>8)%uint64(len(int64Edges))])
		} else {
			v.SetInt(int64(m.r.next()))
		}
	case reflect.Bool:
		v.SetBool(x%2 == 0)
	}
}

// HasNaN reports whether the value holds a NaN float anywhere (then JSON maps it to the single token "NaN").
func HasNaN(obj any) bool {
	found := false
	var walk func(v reflect.Value, depth int)
	walk = func(v reflect.Value, depth int) {
		if found || depth > 60 {
			return
		}
		switch v.Kind() {
		case reflect.Ptr, reflect.Interface:
			if !v.IsNil() {
				walk(v.Elem(), depth+1)
			}
		case reflect.Struct:
			for i := 0; i < v.NumField(); i++ {
				walk(v.Field(i), depth+1)
			}
		case reflect.Slice, reflect.Array:
			if v.Type().Elem().Kind() == reflect.Uint8 {
				return
			}
			for i := 0; i < v.Len(); i++ {
				walk(v.Index(i), depth+1)
			}
		case reflect.Map:
			it := v.MapRange()
			for it.Next() {
				walk(it.Key(), depth+1)
				walk(it.Value(), depth+1)
			}
		case reflect.Float32, reflect.Float64:
			if f := v.Float(); f != f {
				found = true
			}
		}
	}
	walk(reflect.ValueOf(obj), 0)
	return found
}

// HasMap reports whether the Go type of obj contains a map anywhere (map-backed dictionary).
func HasMap(obj any) bool {
	seen := map[reflect.Type]bool{}
	var walk func(t reflect.Type) bool
	walk = func(t reflect.Type) bool {
		if seen[t] {
			return false
		}
		seen[t] = true
		switch t.Kind() {
		case reflect.Map:
			return true
		case reflect.Ptr, reflect.Slice, reflect.Array:
			return walk(t.Elem())
		case reflect.Struct:
			for i := 0; i < t.NumField(); i++ {
				if walk(t.Field(i).Type) {
					return true
				}
			}
		}
		return false
	}
	return walk(reflect.TypeOf(obj))
}
