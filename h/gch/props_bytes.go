package gch

import (
	"fmt"
	"runtime"
	"strings"
	"testing"
	"time"

	"github.com/VKCOM/tl/verifh/pbt"
	"pgregory.net/rapid"
)

func init() {
	props["C02"] = propC02
	props["C08"] = propC08
}

// ---- C02 TL1 readers accept only canonical encodings --------------------------------------------

type bytesCase struct {
	ValCase
	Boxed bool         `json:"boxed,omitempty"`
	Edit  []byteEdit   `json:"edits,omitempty"`
	Raw   pbt.HexBytes `json:"raw,omitempty"` // used instead of the mutated encoding when set
}

func (c *bytesCase) input(reg *Registry) ([]byte, Item, error) {
	obj, it, err := reg.Make(c.ValCase)
	if err != nil {
		return nil, nil, err
	}
	if len(c.Raw) > 0 {
		return c.Raw, it, nil
	}
	var src []byte
	if c.Boxed {
		src, err = tl1Boxed(obj)
	} else {
		src, err = tl1(obj)
	}
	if err != nil {
		return nil, it, fmt.Errorf("cannot encode the source value: %v", err)
	}
	return applyEdits(src, c.Edit), it, nil
}

func genBytesCase(rt *rapid.T, items []Item, maxEdits int) bytesCase {
	c := bytesCase{ValCase: genVal(rt, items, false), Boxed: rapid.Bool().Draw(rt, "boxed")}
	switch rapid.IntRange(0, 11).Draw(rt, "source") {
	case 0:
		c.Raw = rapid.SliceOfN(rapid.Byte(), 1, 40).Draw(rt, "raw")
	case 1: // unmodified valid encoding
	case 2, 3: // strings at the length-form boundaries, first one re-encoded in the next longer form
		c.StrLen = rapid.SampledFrom([]int{1, 2, 3, 4, 252, 253, 253, 254, 255, 256}).Draw(rt, "strlen")
		c.Edit = []byteEdit{{Kind: "strnonmin", N: c.StrLen}}
		if rapid.Bool().Draw(rt, "pad") {
			c.Edit = []byteEdit{{Kind: "nonzero", Pos: rapid.IntRange(0, 1000).Draw(rt, "pos"), Val: 1}}
		}
	default:
		c.Edit = genEdits(rt, maxEdits)
	}
	return c
}

func checkC02(reg *Registry, c bytesCase) pbt.Result {
	in, it, err := c.input(reg)
	if err != nil {
		return pbt.Result{Err: err}
	}
	dec := Create(it, c.Bytes)
	var rest []byte
	if c.Boxed {
		rest, err = readTL1Boxed(dec, in)
	} else {
		rest, err = readTL1(dec, in)
	}
	cls := []string{}
	if len(c.Edit) > 0 {
		cls = append(cls, "mutated-valid-encoding")
	}
	if err != nil {
		if strings.Contains(err.Error(), "panicked") {
			return pbt.Fail("%s: reader on %s: %v", c.Item, hexHead(in), err)
		}
		return pbt.Result{NonTrivial: len(in) >= 8 && len(c.Edit) > 0, Classes: append(cls, "rejected")}
	}
	if len(rest) > len(in) || !eq(rest, in[len(in)-len(rest):]) {
		return pbt.Fail("%s: remainder returned by the reader is not a suffix of the input (input %s, remainder %s)", c.Item, hexHead(in), hexHead(rest))
	}
	consumed := in[:len(in)-len(rest)]
	var w []byte
	if c.Boxed {
		w, err = tl1Boxed(dec)
	} else {
		w, err = tl1(dec)
	}
	if err != nil {
		return pbt.Fail("%s: the reader accepted %s but the decoded value cannot be written: %v", c.Item, hexHead(consumed), err)
	}
	if !eq(w, consumed) {
		if !HasMap(dec) {
			return pbt.Fail("%s: reader accepted a non-canonical encoding: accepted prefix and re-encoding differ: %s; accepted %s, re-encoded %s", c.Item, diffAt(consumed, w), hexHead(consumed), hexHead(w))
		}
		// map-backed dictionaries are re-emitted sorted with duplicates removed: the re-encoding must then be a
		// fixed point, not longer than what was accepted
		again := Create(it, c.Bytes)
		var r2 []byte
		if c.Boxed {
			r2, err = readTL1Boxed(again, w)
		} else {
			r2, err = readTL1(again, w)
		}
		var w2 []byte
		if err == nil {
			if c.Boxed {
				w2, err = tl1Boxed(again)
			} else {
				w2, err = tl1(again)
			}
		}
		if err != nil || len(r2) != 0 || !eq(w2, w) || len(w) > len(consumed) {
			return pbt.Fail("%s (has dictionaries): re-encoding of an accepted input is not a canonical fixed point: accepted %s, re-encoded %s, again %s (err %v)", c.Item, hexHead(consumed), hexHead(w), hexHead(w2), err)
		}
		cls = append(cls, "dictionary-recanonicalised")
	}
	return pbt.Result{NonTrivial: len(in) >= 8 && len(c.Edit) > 0, Classes: append(cls, "accepted")}
}

func propC02(t *testing.T, reg *Registry) {
	items := filterItems(reg, func(it Item) bool { return it.HasTL1() })
	if len(items) == 0 {
		return
	}
	pbt.Run(t, "tl1-canonical/"+reg.SetName, perType(len(items), 300, 3000), func(rt *rapid.T) bytesCase { return genBytesCase(rt, items, 2) }, func(c bytesCase) pbt.Result { return checkC02(reg, c) })
}

// ---- C08 readers are total and bounded ------------------------------------------------------------

type hostileCase struct {
	ValCase
	Reader   string       `json:"reader"` // tl1 tl1boxed tl2 json
	Edit     []byteEdit   `json:"edits,omitempty"`
	Raw      pbt.HexBytes `json:"raw,omitempty"`
	TextEdit []textEdit   `json:"text_edits,omitempty"`
}

type textEdit struct {
	Kind string `json:"k"` // del ins dup rep nest trunc
	Pos  int    `json:"pos"`
	N    int    `json:"n"`
	Tok  string `json:"tok"`
}

var jsonToks = []string{"{", "}", "[", "]", ",", ":", "\"", "null", "true", "false", "1e999", "-0", "0.0000000000000000000000000001", "\"base64\"", "99999999999999999999999999999", "-9223372036854775809", "\"\\ud800\"", "\"\\u0000\"", "{\"ok\":false,\"value\":1}", "\"type\"", "\"value\"", "\"NaN\"", "\"+Inf\"", " "}

func applyTextEdits(s []byte, edits []textEdit) []byte {
	b := append([]byte{}, s...)
	for _, e := range edits {
		pos := 0
		if len(b) > 0 {
			pos = min(len(b)-1, e.Pos*len(b)/1000)
		}
		switch e.Kind {
		case "del":
			end := min(len(b), pos+e.N)
			b = append(b[:pos:pos], b[end:]...)
		case "ins":
			b = append(b[:pos:pos], append([]byte(e.Tok), b[pos:]...)...)
		case "dup":
			end := min(len(b), pos+e.N*3)
			b = append(b[:end:end], append(append([]byte{}, b[pos:end]...), b[end:]...)...)
		case "rep":
			if len(b) > 0 {
				b[pos] = e.Tok[0]
			}
		case "nest":
			b = append([]byte(strings.Repeat("[", e.N*200)), b...)
		case "trunc":
			b = b[:pos]
		}
	}
	return b
}

func genHostile(rt *rapid.T, items []Item) hostileCase {
	c := hostileCase{ValCase: genVal(rt, items, false), Reader: rapid.SampledFrom([]string{"tl1", "tl1", "tl1boxed", "tl2", "tl2", "json", "json"}).Draw(rt, "reader")}
	if c.Reader == "json" {
		n := rapid.IntRange(0, 3).Draw(rt, "nedits")
		for i := 0; i < n; i++ {
			c.TextEdit = append(c.TextEdit, textEdit{
				Kind: rapid.SampledFrom([]string{"del", "ins", "ins", "dup", "rep", "nest", "trunc"}).Draw(rt, "kind"),
				Pos:  rapid.IntRange(0, 1000).Draw(rt, "pos"),
				N:    rapid.IntRange(1, 8).Draw(rt, "n"),
				Tok:  rapid.SampledFrom(jsonToks).Draw(rt, "tok"),
			})
		}
		return c
	}
	switch rapid.IntRange(0, 5).Draw(rt, "source") {
	case 0:
		c.Raw = rapid.SliceOfN(rapid.Byte(), 0, 48).Draw(rt, "raw")
	default:
		c.Edit = genEdits(rt, 3)
		if c.Reader == "tl2" && rapid.Bool().Draw(rt, "big") {
			c.Edit = append(c.Edit, byteEdit{Kind: "tl2big", Pos: rapid.IntRange(0, 1000).Draw(rt, "bigpos"), Val: rapid.SampledFrom([]uint32{31, 32, 62, 63}).Draw(rt, "bigexp")})
		}
	}
	return c
}

func checkC08(reg *Registry, c hostileCase) pbt.Result {
	obj, it, err := reg.Make(c.ValCase)
	if err != nil {
		return pbt.Result{Err: err}
	}
	if (c.Reader == "tl2" && !it.HasTL2()) || (strings.HasPrefix(c.Reader, "tl1") && !it.HasTL1()) {
		return pbt.Result{Classes: []string{"format-not-generated"}}
	}
	var in []byte
	switch c.Reader {
	case "tl1":
		in, err = tl1(obj)
	case "tl1boxed":
		in, err = tl1Boxed(obj)
	case "tl2":
		in, err = tl2(obj, nil)
	case "json":
		in, err = jsonOf(obj, JSONOpts{})
	}
	if err != nil {
		return pbt.Result{Classes: []string{"source-not-encodable"}}
	}
	if c.Reader == "json" {
		in = applyTextEdits(in, c.TextEdit)
	} else if len(c.Raw) > 0 {
		in = c.Raw
	} else {
		in = applyEdits(in, c.Edit)
	}
	dec := Create(it, c.Bytes)
	runtime.GC()
	var m0, m1 runtime.MemStats
	runtime.ReadMemStats(&m0)
	start := time.Now()
	var rerr error
	switch c.Reader {
	case "tl1":
		_, rerr = readTL1(dec, in)
	case "tl1boxed":
		_, rerr = readTL1Boxed(dec, in)
	case "tl2":
		_, rerr = readTL2(dec, in)
	case "json":
		rerr = readJSON(dec, in, JSONOpts{})
	}
	el := time.Since(start)
	runtime.ReadMemStats(&m1)
	if rerr != nil && strings.Contains(rerr.Error(), "panicked") {
		return pbt.Fail("%s: %s reader on %s: %v", c.Item, c.Reader, hexHead(in), rerr)
	}
	alloc := m1.TotalAlloc - m0.TotalAlloc
	bound := uint64(1<<20 + 2048*len(in))
	if alloc > bound {
		return pbt.Fail("%s: %s reader allocated %d bytes for a %d-byte input %s (bound 1 MiB + 2048 x input length)", c.Item, c.Reader, alloc, len(in), hexHead(in))
	}
	if el > 10*time.Second {
		return pbt.Fail("%s: %s reader took %v on a %d-byte input %s", c.Item, c.Reader, el, len(in), hexHead(in))
	}
	cls := []string{"reader-" + c.Reader}
	if rerr == nil {
		cls = append(cls, "accepted")
	} else {
		cls = append(cls, "rejected")
	}
	return pbt.Result{NonTrivial: len(in) >= 8, Classes: cls}
}

func propC08(t *testing.T, reg *Registry) {
	items := reg.Items
	pbt.Run(t, "readers-total/"+reg.SetName, perType(len(items), 60, 1500), func(rt *rapid.T) hostileCase { return genHostile(rt, items) }, func(c hostileCase) pbt.Result { return checkC08(reg, c) })
}
