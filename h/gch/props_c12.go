package gch

import (
	"encoding/hex"
	"fmt"
	"os"
	"reflect"
	"strings"
	"sync"
	"testing"

	"github.com/VKCOM/tl/internal/pure"
	"github.com/VKCOM/tl/internal/pure/onthefly"
	"github.com/VKCOM/tl/verifh/pbt"
	"pgregory.net/rapid"
)

func init() { props["C12"] = propC12 }

// ---- C12 generated code agrees with the dynamic interpreter -----------------------------------------------------

var (
	kernelOnce sync.Once
	kernel     *pure.Kernel
	kernelErr  error
)

// theKernel compiles the schema files of this set (VERIF_GEN_FILES) the way cmd/tl2client does.
func theKernel() (*pure.Kernel, error) {
	kernelOnce.Do(func() {
		defer func() {
			if r := recover(); r != nil {
				kernelErr = fmt.Errorf("kernel panicked: %v", r)
			}
		}()
		k := pure.NewKernel(&pure.OptionsKernel{TypesWhiteList: "*", TL2WhiteList: "*"})
		var files []string
		for _, f := range strings.Split(os.Getenv("VERIF_GEN_FILES"), ":") {
			if f != "" {
				files = append(files, f)
			}
		}
		if err := k.AddFilesFromPaths(files); err != nil { // .tl and .tl2 alike, as cmd/tl2client does
			kernelErr = err
			return
		}
		if err := k.Compile(); err != nil {
			kernelErr = err
			return
		}
		kernel = k
	})
	return kernel, kernelErr
}

// interpValue creates the interpreter's value for an item; "" reason when supported.
func interpValue(k *pure.Kernel, it Item) (v onthefly.KernelValue, reason string) {
	defer func() {
		if r := recover(); r != nil {
			v, reason = nil, "interpreter-does-not-support"
		}
	}()
	if it.IsFunction() {
		ins := k.GetFunctionInstance(it.TLName())
		if ins == nil {
			return nil, "no-interpreter-instance"
		}
		s := onthefly.CreateValueStruct(ins)
		return &s, ""
	}
	ins := k.GetObjectInstanceForTests(it.TLName())
	if ins == nil {
		return nil, "no-interpreter-instance"
	}
	return onthefly.CreateValue(ins), ""
}

// typeFacts walks the interpreter's type graph below an instance.
type typeFacts struct{ recursive, hasTuple, hasDict bool }

var factsCache = map[string]typeFacts{}

func factsOf(root pure.TypeInstance) typeFacts {
	if f, ok := factsCache[root.CanonicalName()]; ok {
		return f
	}
	var f typeFacts
	state := map[pure.TypeInstance]int{} // 1 on the current path, 2 done
	var walk func(pure.TypeInstance)
	walk = func(ins pure.TypeInstance) {
		if ins == nil {
			return
		}
		switch state[ins] {
		case 1:
			f.recursive = true
			return
		case 2:
			return
		}
		state[ins] = 1
		if a, ok := ins.(*pure.TypeInstanceArray); ok && a.IsTuple() {
			f.hasTuple = true
		}
		if _, ok := ins.(*pure.TypeInstanceDict); ok {
			f.hasDict = true
		}
		for _, ch := range ins.GetChildren(nil, false) {
			walk(ch)
		}
		state[ins] = 2
	}
	walk(root)
	factsCache[root.CanonicalName()] = f
	return f
}

func instanceOf(k *pure.Kernel, it Item) pure.TypeInstance {
	if it.IsFunction() {
		if ins := k.GetFunctionInstance(it.TLName()); ins != nil {
			return ins
		}
		return nil
	}
	return k.GetObjectInstanceForTests(it.TLName())
}

type interpCase struct {
	ValCase
	Format string     `json:"format"` // tl1 tl1boxed tl2
	Source string     `json:"source"` // generated | interpreter | mutated
	ISeed  uint64     `json:"iseed,omitempty"`
	Edit   []byteEdit `json:"edits,omitempty"`
}

func iRead(v onthefly.KernelValue, format string, in []byte) (rest []byte, err error) {
	var rerr error
	if perr := call("interpreter read", func() {
		switch format {
		case "tl1":
			rest, _, rerr = v.ReadTL1(in, nil, true, nil)
		case "tl1boxed":
			rest, _, rerr = v.ReadTL1(in, nil, false, nil)
		default:
			rest, rerr = v.ReadTL2(in, nil)
		}
	}); perr != nil {
		return nil, perr
	}
	return rest, rerr
}

func iWrite(v onthefly.KernelValue, format string) (b []byte, err error) {
	err = call("interpreter write", func() {
		var bb onthefly.ByteBuilder
		switch format {
		case "tl1":
			v.WriteTL1(&bb, true, nil, false, 0, nil)
		case "tl1boxed":
			v.WriteTL1(&bb, false, nil, false, 0, nil)
		default:
			v.WriteTL2(&bb, false, false, 0, nil)
		}
		b = append([]byte{}, bb.Buf()...)
	})
	return b, err
}

func gRead(o Object, format string, in []byte) ([]byte, error) {
	switch format {
	case "tl1":
		return readTL1(o, in)
	case "tl1boxed":
		return readTL1Boxed(o, in)
	}
	return readTL2(o, in)
}

func gWrite(o Object, format string) ([]byte, error) {
	switch format {
	case "tl1":
		return tl1(o)
	case "tl1boxed":
		return tl1Boxed(o)
	}
	return tl2(o, nil)
}

// hugeLength: the generated reader's length-sanity error names a count above 2^20.
func hugeLength(err error) bool {
	var n uint64
	if i := strings.Index(err.Error(), "invalid length: "); i >= 0 {
		fmt.Sscanf(err.Error()[i:], "invalid length: %d", &n)
	}
	return n > 1<<20
}

func unhex(s string) []byte {
	b, _ := hex.DecodeString(s)
	return b
}

func checkC12(reg *Registry, c interpCase) pbt.Result {
	obj, it, err := reg.Make(c.ValCase)
	if err != nil {
		return pbt.Result{Err: err}
	}
	if (c.Format == "tl2" && !it.HasTL2()) || (c.Format != "tl2" && !it.HasTL1()) {
		return pbt.Result{Classes: []string{"format-not-generated"}}
	}
	ask := func(q interpReq) (interpResp, string, *pbt.Result) {
		q.Item, q.Fn, q.Format = it.TLName(), it.IsFunction(), c.Format
		r, died, err := theInterp.Do(q)
		if err != nil {
			return r, "", &pbt.Result{Err: fmt.Errorf("harness: interpreter helper: %v", err)}
		}
		if died == "" && strings.HasPrefix(r.Panic, "kernel: ") {
			return r, "", &pbt.Result{Err: fmt.Errorf("harness: the interpreter's kernel does not compile the schema of set %s: %s", reg.SetName, r.Panic)}
		}
		return r, died, nil
	}
	cls := []string{"source-" + c.Source, "format-" + c.Format}
	var in []byte
	switch c.Source {
	case "interpreter":
		probe, died, bad := ask(interpReq{Op: "probe"})
		if bad != nil {
			return *bad
		}
		if died != "" {
			return pbt.Fail("%s: the interpreter died while creating a value: %s", c.Item, died)
		}
		if probe.Unsupported != "" {
			return pbt.Result{Classes: []string{probe.Unsupported}}
		}
		if probe.Recursive {
			// the interpreter's Random has no depth bound: on a recursive type it overflows the stack with positive
			// probability. Random is only a value source here; such types get their values from the generated side.
			return pbt.Result{Classes: []string{"interpreter-random-skipped-recursive-type"}}
		}
		if probe.HasTuple && c.Format != "tl2" {
			// Random draws 32-bit values for # fields and the TL1 writer then resizes tuples to them
			return pbt.Result{Classes: []string{"interpreter-random-skipped-sized-tuple-tl1"}}
		}
		r, died, bad := ask(interpReq{Op: "random", Seed: c.ISeed})
		if bad != nil {
			return *bad
		}
		if died != "" {
			return pbt.Fail("%s: the interpreter died while writing its own Random value (seed %d) as %s: %s", c.Item, c.ISeed, c.Format, died)
		}
		if r.Panic != "" {
			return pbt.Fail("%s: the interpreter's own Random value (seed %d) cannot be written as %s: %s", c.Item, c.ISeed, c.Format, r.Panic)
		}
		in = unhex(r.Out)
	default:
		if in, err = gWrite(obj, c.Format); err != nil {
			return pbt.Result{Classes: []string{"source-not-encodable"}}
		}
		if c.Source == "mutated" {
			in = applyEdits(in, c.Edit)
		}
	}
	if len(in) > 128<<10 {
		// the helper process runs under an address-space limit and the interpreter's value tree is two orders of
		// magnitude larger than the bytes: its death on such an input is the harness' limit, not a verdict
		return pbt.Result{Classes: []string{"input-too-large-for-the-helper"}}
	}
	dec := Create(it, c.Bytes)
	gRest, gErr := gRead(dec, c.Format, in)
	if gErr != nil && strings.Contains(gErr.Error(), "panicked") {
		return pbt.Result{Classes: []string{"generated-reader-panicked"}} // C08's business
	}
	if gErr != nil && c.Source == "mutated" && c.Format != "tl2" && isF5(gErr) && hugeLength(gErr) && pbt.Known("F31") && !pbt.Replaying() {
		// the interpreter would allocate the declared count first (known finding F31): not worth a dead helper process
		return pbt.Result{Excluded: "F31"}
	}
	ir, died, bad := ask(interpReq{Op: "read", In: hex.EncodeToString(in)})
	if bad != nil {
		return *bad
	}
	if ir.Unsupported != "" {
		return pbt.Result{Classes: []string{ir.Unsupported}}
	}
	if died != "" {
		if gErr != nil && c.Source == "mutated" && (strings.Contains(died, "memory") || (strings.Contains(died, "no answer within") && isF5(gErr))) && pbt.Known("F31") && !pbt.Replaying() {
			return pbt.Result{Excluded: "F31"}
		}
		return pbt.Fail("%s: the interpreter's %s reader died on %s (%s); generated reader: %v", c.Item, c.Format, hexHead(in), died, gErr)
	}
	if ir.Panic != "" {
		return pbt.Fail("%s: the interpreter's %s reader on %s: %s; generated reader: %v", c.Item, c.Format, hexHead(in), ir.Panic, gErr)
	}
	if gErr != nil && ir.Err == "" && isF5(gErr) && pbt.KnownFor("F5", c.Item) && !pbt.Replaying() {
		return pbt.Result{Excluded: "F5"} // the generated reader's length sanity check (known finding of C01/C02)
	}
	if gErr == nil && ir.Err != "" && c.Format == "tl2" && c.Source == "mutated" && ir.HasTuple && pbt.Known("F30") && !pbt.Replaying() {
		// F30, reader side: the generated reader of a constant-size tuple reads min(count, n) elements and ignores the
		// rest of the array object, the interpreter does not know n in TL2 and follows the count. Attributed to F30 only
		// if the interpreter accepts the generated re-encoding of the same input and reproduces it.
		if gw, err := gWrite(dec, "tl2"); err == nil {
			r, died, bad := ask(interpReq{Op: "read", In: hex.EncodeToString(gw)})
			same := bad == nil && eq(unhex(r.Out), gw)
			if bad == nil && !same && r.HasDict {
				// the []byte variant keeps the order of dictionary entries, the interpreter sorts them: compare what both
				// re-encodings denote through the map-backed generated reader
				norm := func(b []byte) ([]byte, bool) {
					o := Create(it, false)
					if rest, err := gRead(o, "tl2", b); err != nil || len(rest) != 0 {
						return nil, false
					}
					w, err := gWrite(o, "tl2")
					return w, err == nil
				}
				a, ok1 := norm(unhex(r.Out))
				b, ok2 := norm(gw)
				same = ok1 && ok2 && eq(a, b)
			}
			if bad == nil && died == "" && r.Err == "" && r.Panic == "" && r.Rest == 0 && same {
				return pbt.Result{Excluded: "F30"}
			}
		}
	}
	probe := ""
	if gErr == nil && ir.Err != "" && c.Format == "tl2" && ir.HasTuple {
		if gw, err := gWrite(dec, "tl2"); err == nil {
			if r, died, bad := ask(interpReq{Op: "read", In: hex.EncodeToString(gw)}); bad == nil {
				probe = fmt.Sprintf("\n the interpreter on the generated re-encoding %s: err=%q panic=%q died=%q rest=%d reproduces=%v (%s)", hexHead(gw), r.Err, r.Panic, died, r.Rest, eq(unhex(r.Out), gw), diffAt(gw, unhex(r.Out)))
			}
		}
	}
	if gErr == nil && strings.Contains(ir.Err, "unexpected variant index") && c.Format == "tl2" && c.Source == "mutated" && pbt.Known("F51") && !pbt.Replaying() && hasEmptyStructField(reflect.TypeOf(dec), 0) {
		// known finding F51: generated code skips the object of a field whose type is a field-less struct without
		// reading it, the interpreter parses it and refuses a variant index other than 0
		return pbt.Result{Excluded: "F51"}
	}
	if (gErr == nil) != (ir.Err == "") {
		if c.Source != "mutated" {
			return pbt.Fail("%s: %s bytes written by the %s side are not accepted by the other: %s; generated reader: %v; interpreter: %q", c.Item, c.Format, c.Source, hexHead(in), gErr, ir.Err)
		}
		return pbt.Fail("%s: verdicts differ on %s input %s: generated reader: %v; interpreter: %q%s", c.Item, c.Format, hexHead(in), gErr, ir.Err, probe)
	}
	if gErr != nil {
		return pbt.Result{NonTrivial: len(in) >= 4, Classes: append(cls, "both-rejected")}
	}
	if len(gRest) != ir.Rest {
		return pbt.Fail("%s: both accept %s input %s but consume different lengths: generated leaves %d bytes, interpreter %d", c.Item, c.Format, hexHead(in), len(gRest), ir.Rest)
	}
	gw, err1 := gWrite(dec, c.Format)
	iw := unhex(ir.Out)
	if ir.WriteErr != "" {
		return pbt.Fail("%s: both accept %s input %s; interpreter write: %s", c.Item, c.Format, hexHead(in), ir.WriteErr)
	}
	if err1 != nil {
		return pbt.Fail("%s: both accept %s input %s; the generated value cannot be written (%v) but the interpreter's can", c.Item, c.Format, hexHead(in), err1)
	}
	if !eq(gw, iw) && c.Format == "tl2" && ir.HasTuple && pbt.Known("F30") && !pbt.Replaying() && onlyElisionDiffers(ask, it, c.Bytes, gw, iw) {
		return pbt.Result{Excluded: "F30"}
	}
	if !eq(gw, iw) && ir.HasDict {
		// a dictionary is a Go map in the string variant (written sorted, duplicates gone), an ordered slice in the
		// []byte variant, a sorted list in the interpreter: contents must agree, order and duplicates need not.
		// Both re-encodings are normalised through the map-backed generated reader.
		norm := func(b []byte) ([]byte, bool) {
			o := Create(it, false)
			if rest, err := gRead(o, c.Format, b); err != nil || len(rest) != 0 {
				return nil, false
			}
			w, err := gWrite(o, c.Format)
			return w, err == nil
		}
		ng, ok1 := norm(gw)
		ni, ok2 := norm(iw)
		if ok1 && ok2 && eq(ng, ni) && HasMap(Create(it, false)) {
			if !c.Bytes && len(gw) == len(iw) && eq(ng, gw) {
				// the map-backed variant writes its entries sorted by key and so does the interpreter: with the same
				// entries on both sides (equal lengths, equal after normalisation) only the order can differ
				return pbt.Fail("%s: both accept %s input %s and hold the same dictionary entries, but write them in different orders: %s\n  generated   %s\n  interpreter %s", c.Item, c.Format, hexHead(in), diffAt(gw, iw), hexHead(gw), hexHead(iw))
			}
			return pbt.Result{NonTrivial: len(in) >= 8, Classes: append(cls, "both-accepted", "dictionary-recanonicalised")}
		}
		// duplicate keys: which entry survives is unspecified (the generated map keeps the last, the interpreter sorts
		// with an unstable sort and keeps one): such inputs are not compared beyond the verdict
		dups := false
		if ok1 && hasBytesVariant(it) {
			o := Create(it, true)
			if _, err := gRead(o, c.Format, in); err == nil {
				if w, err := gWrite(o, c.Format); err == nil && len(w) > len(ng) {
					dups = true
				}
			}
		} else if ok1 && c.Format != "tl2" && len(ng) < len(in)-len(gRest) {
			dups = true
		} else if c.Format == "tl2" && c.Source == "mutated" {
			return pbt.Result{Classes: append(cls, "both-accepted", "dictionary-order-unverifiable")}
		}
		if dups && ok2 {
			return pbt.Result{Classes: append(cls, "both-accepted", "dictionary-duplicate-keys")}
		}
	}
	if !eq(gw, iw) {
		if c.Format == "tl2" && HasNegZero(dec) && pbt.Known("F24") && !pbt.Replaying() {
			return pbt.Result{Excluded: "F24"} // generated code drops a float -0.0 as empty, the interpreter keeps it
		}
		js, _ := jsonOf(dec, JSONOpts{})
		return pbt.Fail("%s: both accept %s input %s but re-encode differently: %s\n generated   %s\n interpreter %s\n generated code read the input as %s", c.Item, c.Format, hexHead(in), diffAt(gw, iw), hexHead(gw), hexHead(iw), strHead(js))
	}
	if c.Source != "mutated" && !eq(gw, in) && !HasMap(dec) {
		return pbt.Fail("%s: %s bytes written by the %s side are re-encoded differently by both: %s", c.Item, c.Format, c.Source, diffAt(in, gw))
	}
	return pbt.Result{NonTrivial: len(in) >= 8, Classes: append(cls, "both-accepted")}
}

// onlyElisionDiffers is the shape of known finding F30: the two TL2 re-encodings differ, yet each side reads the other's
// form and re-encodes it to its own (the generated writer spells the default elements of a constant-size tuple out,
// the interpreter keeps such a tuple empty and writes nothing).
func onlyElisionDiffers(ask func(interpReq) (interpResp, string, *pbt.Result), it Item, bytesVariant bool, gw, iw []byte) bool {
	g2 := Create(it, bytesVariant)
	if rest, err := gRead(g2, "tl2", iw); err != nil || len(rest) != 0 {
		return false
	}
	gw2, err := gWrite(g2, "tl2")
	if err != nil || !eq(gw2, gw) {
		return false
	}
	r, died, bad := ask(interpReq{Op: "read", In: hex.EncodeToString(gw)})
	return bad == nil && died == "" && r.Err == "" && r.Panic == "" && r.Rest == 0 && eq(unhex(r.Out), gw) && len(gw) > len(iw)
}

func propC12(t *testing.T, reg *Registry) {
	items := reg.Items
	pbt.Run(t, "interpreter-agreement/"+reg.SetName, perType(len(items), 80, 2500), func(rt *rapid.T) interpCase {
		c := interpCase{ValCase: genVal(rt, items, false),
			Format: rapid.SampledFrom([]string{"tl1", "tl1boxed", "tl2", "tl2"}).Draw(rt, "format"),
			Source: rapid.SampledFrom([]string{"generated", "interpreter", "mutated", "mutated"}).Draw(rt, "source")}
		switch c.Source {
		case "interpreter":
			c.ISeed = rapid.Uint64().Draw(rt, "iseed")
		case "mutated":
			c.Edit = genEdits(rt, 2)
		}
		return c
	}, func(c interpCase) pbt.Result { return checkC12(reg, c) })
}

// hasEmptyStructField: somewhere inside the type there is a field (or element) whose type is a struct without fields.
func hasEmptyStructField(t reflect.Type, depth int) bool {
	if depth > 12 {
		return false
	}
	switch t.Kind() {
	case reflect.Ptr, reflect.Slice, reflect.Array:
		return hasEmptyStructField(t.Elem(), depth+1)
	case reflect.Map:
		return hasEmptyStructField(t.Elem(), depth+1)
	case reflect.Struct:
		for i := 0; i < t.NumField(); i++ {
			ft := t.Field(i).Type
			for ft.Kind() == reflect.Ptr || ft.Kind() == reflect.Slice || ft.Kind() == reflect.Array {
				ft = ft.Elem()
			}
			if ft.Kind() == reflect.Struct && ft.NumField() == 0 {
				return true
			}
			if hasEmptyStructField(t.Field(i).Type, depth+1) {
				return true
			}
		}
	}
	return false
}
