package gch

import "bytes"

// indexAligned finds content (n bytes) that is preceded by a plausible TL1 string header at a 4-aligned offset:
// one byte n (n<=253) or FE n0 n1 n2.
func indexAligned(b, content []byte, n int) int {
	from := 0
	for {
		i := bytes.Index(b[from:], content)
		if i < 0 {
			return -1
		}
		i += from
		if n <= 253 {
			if i >= 1 && (i-1)%4 == 0 && int(b[i-1]) == n {
				return i
			}
		} else if i >= 4 && (i-4)%4 == 0 && b[i-4] == 254 && int(b[i-3])|int(b[i-2])<<8|int(b[i-1])<<16 == n {
			return i
		}
		from = i + 1
		if from >= len(b) {
			return -1
		}
	}
}
