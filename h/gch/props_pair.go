package gch

import (
	"encoding/json"
	"fmt"
	"os"
	"testing"

	"github.com/VKCOM/tl/verifh/pbt"
	"pgregory.net/rapid"
)

// ---- C27 (wire/JSON half): code generated from a TL1 schema (its TL2 view) against code generated from the schema
// that Migration produced from it. Both packages are linked into one test binary by the driver. -------------------

type pairCase struct {
	ValCase
	From string `json:"from"` // original | migrated: which side draws the value and writes first
}

// MainPair is called from the glue of a pair build.
func MainPair(t *testing.T, regA, regB *Registry) {
	ctxMap := map[string]string{"schema_set": regA.SetName, "white_list": os.Getenv("VERIF_PAIR_WL")}
	if b, err := os.ReadFile(os.Getenv("VERIF_GEN_FILES")); err == nil {
		ctxMap["schema_text"] = string(b)
	}
	for key, env := range map[string]string{"schema_text_old": "VERIF_PAIR_OLD", "schema_text_tl": "VERIF_PAIR_TL"} {
		if p := os.Getenv(env); p != "" {
			if b, err := os.ReadFile(p); err == nil {
				ctxMap[key] = string(b)
			}
		}
	}
	ctx, _ := json.Marshal(ctxMap)
	pbt.Context = ctx
	if os.Getenv("VERIF_PROP") == "C13" {
		mainEvolution(t, regA, regB)
		return
	}
	var items []Item
	for _, it := range regA.Items {
		if !it.HasTL2() {
			continue
		}
		if other := regB.ByName(it.TLName()); other != nil && other.HasTL2() {
			items = append(items, it)
		}
	}
	if len(items) == 0 {
		pbt.Run(t, "migration-pair/"+regA.SetName, 1, func(rt *rapid.T) pairCase { return pairCase{} }, func(pairCase) pbt.Result {
			return pbt.Result{Classes: []string{"no-common-tl2-items"}}
		})
		return
	}
	pbt.Run(t, "migration-pair/"+regA.SetName, perType(len(items), 400, 6000), func(rt *rapid.T) pairCase {
		return pairCase{ValCase: genVal(rt, items, false), From: "original"} // values of the original schema are the intersection of both value sets (TL2-origin arrays carry no size constraint)
	}, func(c pairCase) pbt.Result { return checkPair(regA, regB, c) })
}

func checkPair(regA, regB *Registry, c pairCase) pbt.Result {
	src, dst, srcName, dstName := regA, regB, "original", "migrated"
	if c.From == "migrated" {
		src, dst, srcName, dstName = regB, regA, "migrated", "original"
	}
	var obj Object
	var err error
	if perr := call("FillRandom", func() { obj, _, err = src.Make(c.ValCase) }); perr != nil || err != nil {
		// (FillRandom of code generated from TL2-origin types can dereference a nil optional recursive field: that is
		// C18's domain, noted in DESIGN.md; here such a value simply is not available)
		return pbt.Result{Classes: []string{"value-not-available-on-the-" + srcName + "-side"}}
	}
	b1, err := tl2(obj, nil)
	if err != nil {
		return pbt.Result{Classes: []string{"source-not-encodable"}}
	}
	// JSON is taken from the value the TL2 bytes denote on each side (the object that wrote them may hold a negative
	// zero, which the TL2 writer treats as empty - known finding F24 of C04)
	sit := src.ByName(c.Item)
	again := Create(sit, c.Bytes && hasBytesVariant(sit))
	if rest, err := readTL2(again, b1); err != nil || len(rest) != 0 {
		return pbt.Result{Classes: []string{"source-does-not-read-its-own-bytes"}} // C03's business
	}
	j1, jerr1 := jsonOf(again, JSONOpts{})
	dit := dst.ByName(c.Item)
	if dit == nil {
		return pbt.Result{Err: fmt.Errorf("no item %q on the %s side", c.Item, dstName)}
	}
	other := Create(dit, c.Bytes && hasBytesVariant(dit))
	rest, err := readTL2(other, b1)
	if err != nil || len(rest) != 0 {
		return pbt.Fail("%s: TL2 bytes %s written by the %s schema's code are not read completely by the %s schema's code: %v (%d bytes left); value %s", c.Item, hexHead(b1), srcName, dstName, err, len(rest), strHead(j1))
	}
	b2, err := tl2(other, nil)
	if err != nil {
		return pbt.Fail("%s: %s side cannot write the value it read from %s: %v", c.Item, dstName, hexHead(b1), err)
	}
	if !eq(b1, b2) {
		return pbt.Fail("%s: TL2 encoding differs between the %s and the %s schema for value %s: %s\n  %s %s\n  %s %s", c.Item, srcName, dstName, strHead(j1), diffAt(b1, b2), srcName, hexHead(b1), dstName, hexHead(b2))
	}
	j2, jerr2 := jsonOf(other, JSONOpts{})
	if c.From == "migrated" && jerr2 != nil && jerr1 == nil {
		// TL2-origin arrays carry no size parameter: a value drawn on the migrated side whose array lengths disagree with
		// the # fields is not a value of the original schema (its writers refuse it)
		return pbt.Result{Classes: []string{"from-migrated", "not-a-value-of-the-original-schema"}}
	}
	if (jerr1 == nil) != (jerr2 == nil) || !eq(j1, j2) {
		return pbt.Fail("%s: JSON differs between the %s and the %s schema (TL2 %s):\n  %s %s (err %v)\n  %s %s (err %v)", c.Item, srcName, dstName, hexHead(b1), srcName, strHead(j1), jerr1, dstName, strHead(j2), jerr2)
	}
	return pbt.Result{NonTrivial: len(b1) >= 6, Classes: []string{"from-" + srcName}}
}
