package gch

import (
	"fmt"
	"os"
	"reflect"
	"strings"
	"testing"
	"time"

	"github.com/VKCOM/tl/internal/tlast"
	"github.com/VKCOM/tl/pkg/basictl"
	"github.com/VKCOM/tl/verifh/pbt"
	"pgregory.net/rapid"
)

func init() {
	props["C17"] = propC17
	props["C18"] = propC18
	props["C07"] = propC07
	props["C13"] = propC13
}

// ---- C17 registry is consistent with the schema ------------------------------------------------------------

type expItem struct {
	Tag  uint32
	Fn   bool
	Ann  uint32
	Type string // result type name (for constructors)
}

var annBit = map[string]uint32{"any": 1, "internal": 2, "kphp": 4, "read": 8, "readwrite": 16, "write": 32}

// expectedFromSchema parses the TL1 files of the set directly (tlast only: neither the kernel nor the generator)
// and lists every constructor / function without template parameters.
func expectedFromSchema() (map[string]expItem, map[string][]string, bool, error) {
	exp := map[string]expItem{}
	types := map[string][]string{} // type name -> constructors
	hasTL2Files := false
	for _, f := range strings.Split(os.Getenv("VERIF_GEN_FILES"), ":") {
		if f == "" {
			continue
		}
		if strings.HasSuffix(f, ".tl2") {
			hasTL2Files = true
			continue
		}
		b, err := os.ReadFile(f)
		if err != nil {
			return nil, nil, false, err
		}
		tl, err := tlast.ParseTLFile(string(b), f, tlast.LexerOptions{LexerLanguage: tlast.TL1})
		if err != nil {
			return nil, nil, false, err
		}
		for _, c := range tl.Combinators() {
			name := c.Construct.Name.String()
			if !c.IsFunction {
				types[c.TypeDecl.Name.String()] = append(types[c.TypeDecl.Name.String()], name)
			}
			if len(c.TemplateArguments) != 0 {
				continue
			}
			e := expItem{Tag: c.Crc32(), Fn: c.IsFunction, Type: c.TypeDecl.Name.String()}
			if c.Construct.IDExplicit {
				e.Tag = c.Construct.ID
			}
			for _, m := range c.Modifiers {
				e.Ann |= annBit[strings.TrimPrefix(m.Name, "@")]
			}
			exp[name] = e
		}
	}
	return exp, types, hasTL2Files, nil
}

type regCase struct {
	Item string `json:"item"`
}

func propC17(t *testing.T, reg *Registry) {
	exp, types, hasTL2Files, err := expectedFromSchema()
	if err != nil {
		t.Fatalf("cannot parse schema files: %v", err)
	}
	args := os.Getenv("VERIF_GEN_ARGS")
	wantTL2 := strings.Contains(args, "--tl2WhiteList=*")
	noTL2 := !strings.Contains(args, "--tl2WhiteList") && !hasTL2Files
	names, tags := map[string]int{}, map[uint32]string{}
	for _, it := range reg.Items {
		names[it.TLName()]++
	}
	// every expected combinator must be registered (checked as extra enumerated cases named "missing:<name>")
	pbt.Enumerate(t, "registry/"+reg.SetName, func(yield func(regCase) bool) {
		for _, it := range reg.Items {
			if !yield(regCase{it.TLName()}) {
				return
			}
		}
		for n := range exp {
			if names[n] == 0 {
				if !yield(regCase{"missing:" + n}) {
					return
				}
			}
		}
	}, func(c regCase) pbt.Result {
		if strings.HasPrefix(c.Item, "missing:") {
			n := strings.TrimPrefix(c.Item, "missing:")
			// simple wrappers of builtin types (int = Int etc.) and types the generator inlines are not items
			if e := exp[n]; !e.Fn && isBuiltinWrapperName(n) {
				return pbt.Result{Classes: []string{"builtin-wrapper-not-registered"}}
			}
			return pbt.Fail("schema combinator %q has no registry item", n)
		}
		it := reg.Find(c.Item)
		if it == nil {
			return pbt.Fail("GetAllTLItems lists %q but FactoryItemByTLName does not find it", c.Item)
		}
		if names[c.Item] != 1 {
			return pbt.Fail("name %q registered %d times", c.Item, names[c.Item])
		}
		if it.TLName() != c.Item {
			return pbt.Fail("item found by name %q reports name %q", c.Item, it.TLName())
		}
		tag := it.TLTag()
		if tag != 0 {
			if prev, dup := tags[tag]; dup && prev != c.Item {
				return pbt.Fail("tag %08x registered for both %q and %q", tag, prev, c.Item)
			}
			tags[tag] = c.Item
			if bt := reg.ByTag(tag); bt == nil || bt.TLName() != c.Item {
				return pbt.Fail("FactoryItemByTLTag(%08x) does not return %q", tag, c.Item)
			}
		}
		cls := []string{}
		e, isComb := exp[c.Item]
		ctors, isType := types[c.Item]
		switch {
		case isComb:
			if tag != e.Tag {
				return pbt.Fail("%q: registry tag %08x, schema tag %08x", c.Item, tag, e.Tag)
			}
			if it.IsFunction() != e.Fn {
				return pbt.Fail("%q: registry says function=%v, schema says %v", c.Item, it.IsFunction(), e.Fn)
			}
			if it.AnnotationBits() != e.Ann {
				return pbt.Fail("%q: registry annotation bits %#x, schema %#x", c.Item, it.AnnotationBits(), e.Ann)
			}
			cls = append(cls, "combinator")
			if e.Fn {
				cls = append(cls, "function")
			}
		case isType:
			cls = append(cls, "union-type")
		default:
			if !hasTL2Files {
				return pbt.Fail("registry item %q is neither a combinator nor a type of the schema", c.Item)
			}
			cls = append(cls, "tl2-declared")
		}
		if !hasTL2Files || isComb {
			if !it.HasTL1() {
				return pbt.Fail("%q: TL1-origin item reports HasTL1()=false", c.Item)
			}
			if wantTL2 && !it.HasTL2() {
				return pbt.Fail("%q: generated with --tl2WhiteList=* but HasTL2()=false", c.Item)
			}
			if noTL2 && it.HasTL2() {
				return pbt.Fail("%q: generated without TL2 but HasTL2()=true", c.Item)
			}
		}
		// objects created through the factory
		for _, bytesVariant := range []bool{false, true} {
			obj := Create(it, bytesVariant)
			if isComb {
				if obj.TLName() != c.Item || obj.TLTag() != tag {
					return pbt.Fail("%q: created object reports (%q, %08x), registry (%q, %08x)", c.Item, obj.TLName(), obj.TLTag(), c.Item, tag)
				}
			} else if isType {
				found := false
				for _, cn := range ctors {
					if cn == obj.TLName() {
						found = true
						if ce, ok := exp[cn]; ok && ce.Tag != obj.TLTag() {
							return pbt.Fail("%q: union object in variant %q reports tag %08x, schema %08x", c.Item, cn, obj.TLTag(), ce.Tag)
						}
					}
				}
				if !found {
					return pbt.Fail("%q: union object reports constructor %q which is not one of %v", c.Item, obj.TLName(), ctors)
				}
			}
			if it.HasTL1() {
				for seed := uint64(0); seed < 4; seed++ {
					if seed > 0 {
						obj.FillRandom(NewGenerator(seed, 0))
					}
					wb, err := tl1Boxed(obj)
					if err != nil {
						continue
					}
					if len(wb) < 4 || !eq(wb[:4], tagBytes(obj.TLTag())) {
						return pbt.Fail("%q: boxed encoding %s does not start with the reported tag %08x", c.Item, hexHead(wb), obj.TLTag())
					}
				}
			}
		}
		return pbt.Result{NonTrivial: true, Classes: cls}
	})
}

func isBuiltinWrapperName(n string) bool {
	switch n {
	case "int", "long", "string", "float", "double", "true", "boolFalse", "boolTrue", "vector", "tuple", "dictionary", "dictionaryField":
		return true
	}
	return false
}

// ---- C18 random value generation --------------------------------------------------------------------------------

func checkC18(reg *Registry, c ValCase) pbt.Result {
	it := reg.Find(c.Item)
	if it == nil {
		return pbt.Fail("item %q not in registry", c.Item)
	}
	encs := [2][3][]byte{}
	for run := 0; run < 2; run++ {
		obj := Create(it, c.Bytes)
		done := make(chan error, 1)
		go func() { done <- call("FillRandom", func() { obj.FillRandom(NewGenerator(c.Seed, c.Profile)) }) }()
		select {
		case err := <-done:
			if err != nil {
				return pbt.Fail("%s: %v", c.Item, err)
			}
		case <-time.After(60 * time.Second):
			return pbt.Fail("%s: FillRandom did not terminate within 60 s (seed %d profile %d)", c.Item, c.Seed, c.Profile)
		}
		if it.HasTL1() {
			w, err := tl1(obj)
			if err != nil {
				return pbt.Fail("%s: WriteTL1General rejects a FillRandom value: %v", c.Item, err)
			}
			encs[run][0] = w
			if len(w) > 64<<20 {
				return pbt.Fail("%s: FillRandom produced a value of %d encoded bytes", c.Item, len(w))
			}
		}
		if it.HasTL2() {
			w, err := tl2(obj, nil)
			if err != nil {
				return pbt.Fail("%s: %v on a FillRandom value", c.Item, err)
			}
			encs[run][1] = w
		}
		j, err := jsonOf(obj, JSONOpts{})
		if err != nil {
			return pbt.Fail("%s: WriteJSONGeneral on a FillRandom value: %v", c.Item, err)
		}
		encs[run][2] = j
	}
	for k, name := range []string{"TL1", "TL2", "JSON"} {
		if !eq(encs[0][k], encs[1][k]) {
			return pbt.Fail("%s: the same seed (%d, profile %d) produced different values: %s encodings differ: %s", c.Item, c.Seed, c.Profile, name, diffAt(encs[0][k], encs[1][k]))
		}
	}
	// the same seed on an object that already held another value: the value depends on the seed, not on the object's past
	{
		obj := Create(it, c.Bytes)
		if err := call("FillRandom", func() {
			obj.FillRandom(NewGenerator(c.Seed^0x5bd1e995, (c.Profile+1)%5))
			obj.FillRandom(NewGenerator(c.Seed, c.Profile))
		}); err != nil {
			return pbt.Fail("%s: FillRandom on a reused object: %v", c.Item, err)
		}
		reused := [3][]byte{}
		if it.HasTL1() {
			reused[0], _ = tl1(obj)
		}
		if it.HasTL2() {
			reused[1], _ = tl2(obj, nil)
		}
		reused[2], _ = jsonOf(obj, JSONOpts{})
		for k, name := range []string{"TL1", "TL2", "JSON"} {
			if !eq(encs[0][k], reused[k]) {
				return pbt.Fail("%s: seed %d (profile %d) fills an object that held another value differently from a fresh one: %s encodings differ: %s\n  fresh  %s\n  reused %s", c.Item, c.Seed, c.Profile, name, diffAt(encs[0][k], reused[k]), strHead(encs[0][2]), strHead(reused[2]))
			}
		}
	}
	cls := []string{}
	if it.IsFunction() {
		fn := it.CreateFunction()
		fn.FillRandom(NewGenerator(c.Seed, c.Profile))
		var r []byte
		var err error
		if e := call("FillRandomResultTL1", func() { r, err = fn.FillRandomResultTL1(NewGenerator(c.Seed+1, c.Profile), nil) }); e != nil {
			return pbt.Fail("%s: %v", c.Item, e)
		}
		if err == nil {
			var rest []byte
			if e := call("ReadResultTL1WriteResultJSON", func() { rest, _, err = fn.ReadResultTL1WriteResultJSON(&basictl.JSONWriteContext{}, r, nil) }); e != nil {
				return pbt.Fail("%s: %v", c.Item, e)
			}
			if err != nil {
				if isF5(err) && pbt.KnownFor("F5", c.Item) && !pbt.Replaying() {
					return pbt.Result{Excluded: "F5"}
				}
				return pbt.Fail("%s: the result produced by FillRandomResultTL1 (%s) is rejected by the result reader: %v", c.Item, hexHead(r), err)
			}
			if len(rest) != 0 {
				return pbt.Fail("%s: result reader left %d bytes of the FillRandomResultTL1 output", c.Item, len(rest))
			}
			cls = append(cls, "function-result")
		}
	}
	return pbt.Result{NonTrivial: len(encs[0][2]) >= 8, Classes: append(cls, valueClasses(c, encs[0][0])...)}
}

func propC18(t *testing.T, reg *Registry) {
	items := reg.Items
	pbt.Run(t, "fillrandom/"+reg.SetName, perType(len(items), 100, 3000), func(rt *rapid.T) ValCase {
		c := genVal(rt, items, false)
		c.Mut = 0
		return c
	}, func(c ValCase) pbt.Result { return checkC18(reg, c) })
}

// ---- C07 function result transcoders ------------------------------------------------------------------------------

type fnCase struct {
	ValCase        // the request
	ResSeed uint64 `json:"result_seed"`
	ResProf int    `json:"result_profile"`
	Legacy  bool   `json:"legacy_type_names,omitempty"`
}

func method(v reflect.Value, name string) reflect.Value { return v.MethodByName(name) }

func checkC07(reg *Registry, c fnCase) pbt.Result {
	it := reg.Find(c.Item)
	if it == nil || !it.IsFunction() {
		return pbt.Fail("function %q not in registry", c.Item)
	}
	var fn Function
	if c.Bytes {
		fn = it.CreateFunctionBytes()
	} else {
		fn = it.CreateFunction()
	}
	fn.FillRandom(NewGenerator(c.Seed, c.Profile))
	var r1 []byte
	var err error
	if e := call("FillRandomResultTL1", func() { r1, err = fn.FillRandomResultTL1(NewGenerator(c.ResSeed, c.ResProf), nil) }); e != nil {
		return pbt.Fail("%s: %v", c.Item, e)
	}
	if err != nil {
		return pbt.Result{Classes: []string{"no-random-result"}}
	}
	// every transcoder gets the caller's JSON context: with legacy type names a union is written as "name#tag" by all of them
	jw, jr := &basictl.JSONWriteContext{LegacyTypeNames: c.Legacy}, &basictl.JSONReadContext{LegacyTypeNames: c.Legacy}
	var rest, j, back []byte
	// TL1 -> JSON -> TL1
	if e := call("ReadResultTL1WriteResultJSON", func() { rest, j, err = fn.ReadResultTL1WriteResultJSON(jw, r1, nil) }); e != nil {
		return pbt.Fail("%s: %v", c.Item, e)
	}
	if err != nil {
		if isF5(err) && pbt.KnownFor("F5", c.Item) && !pbt.Replaying() {
			return pbt.Result{Excluded: "F5"}
		}
		return pbt.Fail("%s: TL1->JSON of a valid result %s failed: %v", c.Item, hexHead(r1), err)
	}
	if len(rest) != 0 {
		return pbt.Fail("%s: TL1->JSON left %d of %d result bytes", c.Item, len(rest), len(r1))
	}
	if e := call("ReadResultJSONWriteResultTL1", func() { _, back, err = fn.ReadResultJSONWriteResultTL1(jr, j, nil) }); e != nil {
		return pbt.Fail("%s: %v", c.Item, e)
	}
	nanSafe := !strings.Contains(string(j), "NaN")
	if err == nil && !eq(back, r1) && onlyNegZeroDiffs(r1, back) && pbt.Known("F24") && !pbt.Replaying() {
		return pbt.Result{Excluded: "F24"}
	}
	if err != nil || (nanSafe && !eq(back, r1)) {
		return pbt.Fail("%s: TL1->JSON->TL1 does not reproduce the result: %s (err %v); JSON %s", c.Item, diffAt(r1, back), err, strHead(j))
	}
	cls := []string{}
	if it.HasTL2() {
		fn := fn.(TL2Function)
		var t2, back2, j2, t2b []byte
		if e := call("ReadResultTL1WriteResultTL2", func() { rest, t2, err = fn.ReadResultTL1WriteResultTL2(&basictl.TL2WriteContext{}, r1, nil) }); e != nil {
			return pbt.Fail("%s: %v (result %s)", c.Item, e, hexHead(r1))
		}
		if err != nil || len(rest) != 0 {
			return pbt.Fail("%s: TL1->TL2 of a valid result failed: %v (%d bytes left)", c.Item, err, len(rest))
		}
		if e := call("ReadResultTL2WriteResultTL1", func() { rest, back2, err = fn.ReadResultTL2WriteResultTL1(&basictl.TL2ReadContext{}, t2, nil) }); e != nil {
			return pbt.Fail("%s: %v", c.Item, e)
		}
		if err == nil && len(rest) == 0 && !eq(back2, r1) && onlyNegZeroDiffs(r1, back2) && pbt.Known("F24") && !pbt.Replaying() {
			return pbt.Result{Excluded: "F24"} // a negative zero is the empty value for the TL2 writer
		}
		if err != nil || len(rest) != 0 || !eq(back2, r1) {
			return pbt.Fail("%s: TL1->TL2->TL1 does not reproduce the result: %s (err %v, %d bytes left); TL2 %s", c.Item, diffAt(r1, back2), err, len(rest), hexHead(t2))
		}
		if e := call("ReadResultTL2WriteResultJSON", func() { rest, j2, err = fn.ReadResultTL2WriteResultJSON(&basictl.TL2ReadContext{}, jw, t2, nil) }); e != nil {
			return pbt.Fail("%s: %v", c.Item, e)
		}
		if err != nil || !eq(j2, j) {
			return pbt.Fail("%s: TL2->JSON disagrees with TL1->JSON: %s vs %s (err %v)", c.Item, strHead(j2), strHead(j), err)
		}
		if e := call("ReadResultJSONWriteResultTL2", func() { _, t2b, err = fn.ReadResultJSONWriteResultTL2(jr, &basictl.TL2WriteContext{}, j, nil) }); e != nil {
			return pbt.Fail("%s: %v", c.Item, e)
		}
		if err != nil || (nanSafe && !eq(t2b, t2)) {
			return pbt.Fail("%s: JSON->TL2 disagrees with TL1->TL2: %s (err %v)", c.Item, diffAt(t2, t2b), err)
		}
		cls = append(cls, "tl2")
	}
	// typed path: ReadResultTL1 into the typed result, WriteResultTL1 / WriteResultJSON back
	fv := reflect.ValueOf(fn)
	if wr := method(fv, "WriteResultTL1"); wr.IsValid() && wr.Type().NumIn() == 2 {
		resT := wr.Type().In(1)
		ret := reflect.New(resT)
		rd := method(fv, "ReadResultTL1")
		var out []reflect.Value
		if e := call("typed ReadResultTL1", func() { out = rd.Call([]reflect.Value{reflect.ValueOf(r1), ret}) }); e != nil {
			return pbt.Fail("%s: %v", c.Item, e)
		}
		if !out[1].IsNil() {
			return pbt.Fail("%s: typed ReadResultTL1 rejects a result the transcoders accept: %v", c.Item, out[1].Interface())
		}
		if e := call("typed WriteResultTL1", func() { out = wr.Call([]reflect.Value{reflect.ValueOf([]byte(nil)), ret.Elem()}) }); e != nil {
			return pbt.Fail("%s: %v", c.Item, e)
		}
		if !out[1].IsNil() || !eq(out[0].Bytes(), r1) {
			return pbt.Fail("%s: typed ReadResultTL1+WriteResultTL1 gives %s, transcoders expect %s (err %v)", c.Item, hexHead(out[0].Bytes()), hexHead(r1), out[1].Interface())
		}
		if wj := method(fv, "WriteResultJSON"); !c.Legacy && wj.IsValid() && wj.Type().NumIn() == 2 { // the typed writer takes no context: default names
			if e := call("typed WriteResultJSON", func() { out = wj.Call([]reflect.Value{reflect.ValueOf([]byte(nil)), ret.Elem()}) }); e != nil {
				return pbt.Fail("%s: %v", c.Item, e)
			}
			if !out[1].IsNil() || !eq(out[0].Bytes(), j) {
				return pbt.Fail("%s: typed WriteResultJSON gives %s, transcoder TL1->JSON gives %s", c.Item, strHead(out[0].Bytes()), strHead(j))
			}
		}
		if w2 := method(fv, "WriteResultTL2"); it.HasTL2() && w2.IsValid() && w2.Type().NumIn() == 3 {
			var t2 []byte
			_, t2, _ = fn.(TL2Function).ReadResultTL1WriteResultTL2(&basictl.TL2WriteContext{}, r1, nil)
			if e := call("typed WriteResultTL2", func() {
				out = w2.Call([]reflect.Value{reflect.ValueOf([]byte(nil)), reflect.ValueOf(&basictl.TL2WriteContext{}), ret.Elem()})
			}); e != nil {
				return pbt.Fail("%s: %v", c.Item, e)
			}
			if !eq(out[0].Bytes(), t2) {
				return pbt.Fail("%s: typed WriteResultTL2 gives %s, transcoder TL1->TL2 gives %s", c.Item, hexHead(out[0].Bytes()), hexHead(t2))
			}
		}
		cls = append(cls, "typed-path")
	}
	return pbt.Result{NonTrivial: len(r1) >= 8, Classes: cls}
}

func propC07(t *testing.T, reg *Registry) {
	items := filterItems(reg, func(it Item) bool { return it.IsFunction() && it.HasTL1() })
	if len(items) == 0 {
		return
	}
	pbt.Run(t, "function-results/"+reg.SetName, perType(len(items), 300, 3000), func(rt *rapid.T) fnCase {
		c := fnCase{ValCase: genVal(rt, items, false), ResSeed: rapid.Uint64().Draw(rt, "rseed"), ResProf: rapid.IntRange(0, 6).Draw(rt, "rprofile"), Legacy: rapid.IntRange(0, 2).Draw(rt, "legacy") == 0}
		c.Mut = 0
		return c
	}, func(c fnCase) pbt.Result { return checkC07(reg, c) })
}

// ---- C13 (generic part) TL2 readers accept admissible re-encodings -----------------------------------------------------

type tl2Admissible struct {
	ValCase
	Form string `json:"form"` // huge-size zero-mask oversize
	Cut  int    `json:"cut"`
}

func checkC13(reg *Registry, c tl2Admissible) pbt.Result {
	obj, it, err := reg.Make(c.ValCase)
	if err != nil {
		return pbt.Result{Err: err}
	}
	w, err := tl2(obj, nil)
	if err != nil {
		return pbt.Fail("%s: %v", c.Item, err)
	}
	if len(w) == 0 {
		return pbt.Result{}
	}
	// top-level value of a registry item is an object: varlen size then body
	_, size, perr := basictl.TL2ParseSize(w)
	hdr := basictl.TL2CalculateSize(size)
	if perr != nil || hdr+size != len(w) {
		return pbt.Result{Classes: []string{"top-level-not-a-sized-object"}}
	}
	body := w[hdr:]
	var in []byte
	expectReject := false
	switch c.Form {
	case "huge-size":
		in = append([]byte{255, byte(size), byte(size >> 8), byte(size >> 16), byte(size >> 24), 0, 0, 0, 0}, body...)
	case "zero-mask":
		if size != 0 {
			return pbt.Result{Classes: []string{"not-empty"}}
		}
		in = []byte{1, 0}
	case "oversize":
		k := 1 + c.Cut%max(1, len(w)-1)
		if k >= len(w) {
			return pbt.Result{}
		}
		in = w[:len(w)-k] // declared size now exceeds the remaining input
		expectReject = size > 0
		if !expectReject {
			return pbt.Result{}
		}
	}
	dec := Create(it, c.Bytes)
	exact := c.Cut%2 == 1 // half of the admissible cases end exactly at the end of the input
	if exact && !expectReject {
		rest, err := readTL2(dec, in)
		if err != nil || len(rest) != 0 {
			return pbt.Fail("%s: ReadTL2 rejects the admissible %s re-encoding %s (input ends with the object) of %s: %v (%d bytes left)", c.Item, c.Form, hexHead(in), hexHead(w), err, len(rest))
		}
		w2, err := tl2(dec, nil)
		if err != nil || !eq(w2, w) {
			return pbt.Fail("%s: %s re-encoding %s decodes to a different value: minimal encoding %s instead of %s (err %v)", c.Item, c.Form, hexHead(in), hexHead(w2), hexHead(w), err)
		}
		return pbt.Result{NonTrivial: true, Classes: []string{"form-" + c.Form, "ends-with-input"}}
	}
	rest, err := readTL2(dec, append(append([]byte{}, in...), trailingIf(!expectReject)...))
	if expectReject {
		if err == nil {
			return pbt.Fail("%s: object declares %d body bytes but only %d remain, yet ReadTL2 accepted %s", c.Item, size, len(in)-hdr, hexHead(in))
		}
		return pbt.Result{NonTrivial: true, Classes: []string{"form-" + c.Form}}
	}
	if err != nil {
		return pbt.Fail("%s: ReadTL2 rejects the admissible %s re-encoding %s of %s: %v", c.Item, c.Form, hexHead(in), hexHead(w), err)
	}
	if !eq(rest, trailing) {
		return pbt.Fail("%s: %s re-encoding: wrong remainder %s", c.Item, c.Form, hexHead(rest))
	}
	w2, err := tl2(dec, nil)
	if err != nil || !eq(w2, w) {
		return pbt.Fail("%s: %s re-encoding %s decodes to a different value: minimal encoding %s instead of %s (err %v)", c.Item, c.Form, hexHead(in), hexHead(w2), hexHead(w), err)
	}
	return pbt.Result{NonTrivial: true, Classes: []string{"form-" + c.Form}}
}

func trailingIf(b bool) []byte {
	if b {
		return trailing
	}
	return nil
}

func propC13(t *testing.T, reg *Registry) {
	// only struct-shaped Go types are TL2 objects (size + body); wrappers of primitives / arrays are encoded bare
	items := filterItems(reg, func(it Item) bool {
		v := reflect.ValueOf(it.CreateObject())
		return it.HasTL2() && v.Kind() == reflect.Ptr && v.Elem().Kind() == reflect.Struct && v.Elem().NumField() > 0 && !strings.HasSuffix(v.Type().String(), "TLItemImpl")
	})
	if len(items) == 0 {
		return
	}
	pbt.Run(t, "tl2-admissible/"+reg.SetName, perType(len(items), 150, 1500), func(rt *rapid.T) tl2Admissible {
		return tl2Admissible{ValCase: genVal(rt, items, false), Form: rapid.SampledFrom([]string{"huge-size", "huge-size", "zero-mask", "oversize", "oversize"}).Draw(rt, "form"), Cut: rapid.IntRange(0, 1000).Draw(rt, "cut")}
	}, func(c tl2Admissible) pbt.Result { return checkC13(reg, c) })
	propC13Nested(t, reg, items)
	propC13Results(t, reg)
}

var _ = fmt.Sprintf
