package gch

import (
	"reflect"
	"sort"
	"unicode/utf8"
	"unsafe"
)

// collectStringKeyMaps returns the non-empty map[string]T values inside obj (map-backed dictionaries). The leaf mutator
// cannot reach map keys (they are not addressable), so keys that need JSON escaping would otherwise only ever occur in
// the slice-backed ([]byte) variant.
func collectStringKeyMaps(v reflect.Value) []reflect.Value {
	var out []reflect.Value
	var walk func(v reflect.Value, depth int)
	walk = func(v reflect.Value, depth int) {
		if depth > 40 {
			return
		}
		switch v.Kind() {
		case reflect.Ptr, reflect.Interface:
			if !v.IsNil() {
				walk(v.Elem(), depth+1)
			}
		case reflect.Struct:
			for i := 0; i < v.NumField(); i++ {
				fv := v.Field(i)
				if !fv.CanSet() {
					if !fv.CanAddr() {
						continue
					}
					fv = reflect.NewAt(fv.Type(), unsafe.Pointer(fv.UnsafeAddr())).Elem()
				}
				walk(fv, depth+1)
			}
		case reflect.Slice, reflect.Array:
			if v.Type().Elem().Kind() == reflect.Uint8 {
				return
			}
			for i := 0; i < v.Len(); i++ {
				walk(v.Index(i), depth+1)
			}
		case reflect.Map:
			if k := v.Type().Key().Kind(); (k == reflect.String || k == reflect.Int32 || k == reflect.Int64) && v.Len() > 0 && v.CanSet() {
				out = append(out, v)
			}
		}
	}
	walk(v, 0)
	return out
}

// rekey moves one entry (chosen deterministically) of a map[string]T to a key from the special strings; keys that are
// not valid UTF-8 are left to the slice-backed variant (known finding F25 is about them).
func (m *mutator) rekey(mp reflect.Value) {
	if k := mp.Type().Key().Kind(); k == reflect.Int32 || k == reflect.Int64 {
		// integer keys: FillRandom only draws non-negative ones; move one entry to a boundary value (far apart, both signs)
		keys := make([]int64, 0, mp.Len())
		for _, k := range mp.MapKeys() {
			keys = append(keys, k.Int())
		}
		sort.Slice(keys, func(i, j int) bool { return keys[i] < keys[j] })
		old := reflect.ValueOf(keys[int(m.r.next()%uint64(len(keys)))]).Convert(mp.Type().Key())
		var nk int64
		if k == reflect.Int32 {
			nk = int64(int32Edges[m.r.next()%uint64(len(int32Edges))])
		} else {
			nk = int64Edges[m.r.next()%uint64(len(int64Edges))]
		}
		val := mp.MapIndex(old)
		mp.SetMapIndex(old, reflect.Value{})
		mp.SetMapIndex(reflect.ValueOf(nk).Convert(mp.Type().Key()), val)
		return
	}
	keys := make([]string, 0, mp.Len())
	for _, k := range mp.MapKeys() {
		keys = append(keys, k.String())
	}
	sort.Strings(keys)
	old := keys[int(m.r.next()%uint64(len(keys)))]
	var nk string
	for tries := 0; tries < 8; tries++ {
		nk = string(m.bytes())
		if utf8.ValidString(nk) {
			break
		}
		nk = "quo\"te\\back line"
	}
	val := mp.MapIndex(reflect.ValueOf(old).Convert(mp.Type().Key()))
	mp.SetMapIndex(reflect.ValueOf(old).Convert(mp.Type().Key()), reflect.Value{})
	mp.SetMapIndex(reflect.ValueOf(nk).Convert(mp.Type().Key()), val)
}
