package gch

import (
	"encoding/json"
	"fmt"
	"strings"
	"testing"

	"github.com/VKCOM/tl/pkg/basictl"
	"github.com/VKCOM/tl/verifh/pbt"
	"pgregory.net/rapid"
)

func init() {
	props["C01"] = propC01
	props["C03"] = propC03
	props["C04"] = propC04
	props["C05"] = propC05
}

func valueClasses(c ValCase, enc []byte) []string {
	cls := []string{}
	switch {
	case len(enc) < 8:
		cls = append(cls, "enc<8")
	case len(enc) < 64:
		cls = append(cls, "enc<64")
	default:
		cls = append(cls, "enc>=64")
	}
	if c.Mut > 0 {
		cls = append(cls, "leaf-mutated")
	}
	if c.Bytes {
		cls = append(cls, "bytes-variant")
	}
	return cls
}

// isF5 recognises finding F5: the TL1 reader's length sanity check rejects what the writer produced because it
// assumes every array element occupies at least 4 bytes.
func isF5(err error) bool {
	return err != nil && strings.Contains(err.Error(), "invalid length") && strings.Contains(err.Error(), "min object size")
}

// ---- C01 TL1 round trip ---------------------------------------------------------------

func checkC01(reg *Registry, c ValCase) pbt.Result {
	obj, it, err := reg.Make(c)
	if err != nil {
		return pbt.Result{Err: err}
	}
	w, err := tl1(obj)
	if err != nil {
		return pbt.Fail("%s: WriteTL1General of a FillRandom-made value failed: %v (value %s)", c.Item, err, strHead([]byte(safeString(obj))))
	}
	fresh := Create(it, c.Bytes)
	rest, err := readTL1(fresh, append(append([]byte{}, w...), trailing...))
	if err != nil {
		if isF5(err) && pbt.KnownFor("F5", c.Item) && !pbt.Replaying() {
			return pbt.Result{Excluded: "F5"}
		}
		return pbt.Fail("%s: ReadTL1 rejects the bytes WriteTL1General produced (%s): %v", c.Item, hexHead(w), err)
	}
	if !eq(rest, trailing) {
		return pbt.Fail("%s: ReadTL1 did not consume exactly the written bytes: %d written, remainder %s (expected the %d appended bytes)", c.Item, len(w), hexHead(rest), len(trailing))
	}
	w2, err := tl1(fresh)
	if err != nil || !eq(w2, w) {
		return pbt.Fail("%s: second WriteTL1General differs: first %s, second %s (err %v)", c.Item, hexHead(w), hexHead(w2), err)
	}
	// boxed pair
	wb, err := tl1Boxed(obj)
	if err != nil {
		return pbt.Fail("%s: WriteTL1BoxedGeneral failed: %v", c.Item, err)
	}
	if !eq(wb, w) && !eq(wb, append(tagBytes(obj.TLTag()), w...)) {
		return pbt.Fail("%s: boxed bytes are neither the bare bytes (boxed-only type) nor tag %08x followed by the bare bytes: bare %s boxed %s", c.Item, obj.TLTag(), hexHead(w), hexHead(wb))
	}
	if len(wb) < 4 || !eq(wb[:4], tagBytes(obj.TLTag())) {
		return pbt.Fail("%s: boxed encoding %s does not start with TLTag() %08x", c.Item, hexHead(wb), obj.TLTag())
	}
	fresh2 := Create(it, c.Bytes)
	rest, err = readTL1Boxed(fresh2, append(append([]byte{}, wb...), trailing...))
	if err != nil {
		if isF5(err) && pbt.KnownFor("F5", c.Item) && !pbt.Replaying() {
			return pbt.Result{Excluded: "F5"}
		}
		return pbt.Fail("%s: ReadTL1Boxed rejects the bytes WriteTL1BoxedGeneral produced (%s): %v", c.Item, hexHead(wb), err)
	}
	if !eq(rest, trailing) {
		return pbt.Fail("%s: ReadTL1Boxed did not consume exactly the written bytes (remainder %s)", c.Item, hexHead(rest))
	}
	wb2, err := tl1Boxed(fresh2)
	if err != nil || !eq(wb2, wb) {
		return pbt.Fail("%s: second WriteTL1BoxedGeneral differs: first %s, second %s (err %v)", c.Item, hexHead(wb), hexHead(wb2), err)
	}
	zero, _ := tl1(Create(it, c.Bytes))
	return pbt.Result{NonTrivial: len(w) >= 8 && !eq(zero, w), Classes: valueClasses(c, w)}
}

func safeString(o Object) (s string) {
	defer func() {
		if r := recover(); r != nil {
			s = fmt.Sprintf("<String() panicked: %v>", r)
		}
	}()
	return o.String()
}

func propC01(t *testing.T, reg *Registry) {
	items := filterItems(reg, func(it Item) bool { return it.HasTL1() })
	if len(items) == 0 {
		return
	}
	pbt.Run(t, "tl1-roundtrip/"+reg.SetName, perType(len(items), 150, 1500), func(rt *rapid.T) ValCase { return genVal(rt, items, true) }, func(c ValCase) pbt.Result { return checkC01(reg, c) })
	propC01Len(t, reg, items)
}

// ---- C03 TL2 round trip ------------------------------------------------------------------

type tl2Case struct {
	ValCase
	FromBytes bool         `json:"from_bytes,omitempty"` // value obtained by decoding (possibly mutated) TL2 bytes
	Edit      []byteEdit   `json:"edits,omitempty"`
	Raw       pbt.HexBytes `json:"raw,omitempty"`
}

func checkC03(reg *Registry, c tl2Case) pbt.Result {
	obj, it, err := reg.Make(c.ValCase)
	if err != nil {
		return pbt.Result{Err: err}
	}
	cls := []string{}
	if c.FromBytes {
		// route (d): a value obtained by decoding arbitrary / mutated TL2 bytes
		src, err := tl2(obj, nil)
		if err != nil {
			return pbt.Fail("%s: %v", c.Item, err)
		}
		in := applyEdits(src, c.Edit)
		if len(c.Raw) > 0 {
			in = c.Raw
		}
		dec := Create(it, c.Bytes)
		if _, err := readTL2(dec, in); err != nil {
			if strings.Contains(err.Error(), "panicked") {
				return pbt.Fail("%s: ReadTL2 on %s: %v", c.Item, hexHead(in), err)
			}
			return pbt.Result{Classes: []string{"decoded-rejected"}}
		}
		obj = dec
		cls = append(cls, "value-from-decoded-bytes")
	}
	w, err := tl2(obj, nil)
	if err != nil {
		return pbt.Fail("%s: %v (value %s)", c.Item, err, strHead([]byte(safeString(obj))))
	}
	fresh := Create(it, c.Bytes)
	rest, err := readTL2(fresh, append(append([]byte{}, w...), trailing...))
	if err != nil {
		return pbt.Fail("%s: ReadTL2 rejects the bytes WriteTL2 produced (%s): %v", c.Item, hexHead(w), err)
	}
	if !eq(rest, trailing) {
		return pbt.Fail("%s: ReadTL2 did not consume exactly the written bytes: %d written, remainder %s", c.Item, len(w), hexHead(rest))
	}
	w2, err := tl2(fresh, nil)
	if err != nil || !eq(w2, w) {
		return pbt.Fail("%s: second WriteTL2 differs: first %s, second %s (err %v)", c.Item, hexHead(w), hexHead(w2), err)
	}
	// reused size buffer must not change the bytes
	ctx := &basictl.TL2WriteContext{SizeBuffer: make([]int, 3, 64)}
	w3, err := tl2(obj, ctx)
	if err == nil {
		w3b, _ := tl2(obj, ctx)
		if !eq(w3, w) || !eq(w3b, w) {
			return pbt.Fail("%s: WriteTL2 with a reused TL2WriteContext gives %s / %s instead of %s", c.Item, hexHead(w3), hexHead(w3b), hexHead(w))
		}
	} else {
		return pbt.Fail("%s: WriteTL2 with a reused TL2WriteContext: %v", c.Item, err)
	}
	zero, _ := tl2(Create(it, c.Bytes), nil)
	return pbt.Result{NonTrivial: len(w) >= 3 && !eq(zero, w), Classes: append(valueClasses(c.ValCase, w), cls...)}
}

func propC03(t *testing.T, reg *Registry) {
	items := filterItems(reg, func(it Item) bool { return it.HasTL2() })
	if len(items) == 0 {
		return
	}
	pbt.Run(t, "tl2-roundtrip/"+reg.SetName, perType(len(items), 150, 1500), func(rt *rapid.T) tl2Case {
		c := tl2Case{ValCase: genVal(rt, items, true)}
		if rapid.IntRange(0, 2).Draw(rt, "route") == 0 {
			c.FromBytes = true
			if rapid.IntRange(0, 3).Draw(rt, "raw") == 0 {
				c.Raw = rapid.SliceOfN(rapid.Byte(), 0, 24).Draw(rt, "rawbytes")
			} else {
				c.Edit = genEdits(rt, 3)
			}
		}
		return c
	}, func(c tl2Case) pbt.Result { return checkC03(reg, c) })
}

// ---- C04 TL1 -> TL2 -> TL1 -----------------------------------------------------------------

func checkC04(reg *Registry, c ValCase) pbt.Result {
	obj, it, err := reg.Make(c)
	if err != nil {
		return pbt.Result{Err: err}
	}
	if pbt.Known("F24") && !pbt.Replaying() && HasNegZero(obj) {
		return pbt.Result{Excluded: "F24"}
	}
	b1, err := tl1(obj)
	if err != nil {
		return pbt.Fail("%s: WriteTL1General failed: %v", c.Item, err)
	}
	a := Create(it, c.Bytes)
	if rest, err := readTL1(a, b1); err != nil || len(rest) != 0 {
		if isF5(err) && pbt.KnownFor("F5", c.Item) && !pbt.Replaying() {
			return pbt.Result{Excluded: "F5"}
		}
		return pbt.Fail("%s: ReadTL1 of valid TL1 bytes %s: err %v, %d bytes left", c.Item, hexHead(b1), err, len(rest))
	}
	b2, err := tl2(a, nil)
	if err != nil {
		return pbt.Fail("%s: converting to TL2: %v", c.Item, err)
	}
	cc := Create(it, c.Bytes)
	if rest, err := readTL2(cc, b2); err != nil || len(rest) != 0 {
		return pbt.Fail("%s: ReadTL2 of converted bytes %s: err %v, %d bytes left", c.Item, hexHead(b2), err, len(rest))
	}
	b1c, err := tl1(cc)
	if err != nil || !eq(b1c, b1) {
		return pbt.Fail("%s: TL1 -> TL2 -> TL1 changed the value: %s; TL1 before %s, TL2 %s, TL1 after %s (err %v)", c.Item, diffAt(b1, b1c), hexHead(b1), hexHead(b2), hexHead(b1c), err)
	}
	ja, err1 := jsonOf(a, JSONOpts{})
	jc, err2 := jsonOf(cc, JSONOpts{})
	if err1 != nil || err2 != nil || !eq(ja, jc) {
		return pbt.Fail("%s: JSON of the TL1-decoded and of the TL2-decoded value differ: %s vs %s (errs %v %v)", c.Item, strHead(ja), strHead(jc), err1, err2)
	}
	zero, _ := tl1(Create(it, c.Bytes))
	return pbt.Result{NonTrivial: len(b1) >= 8 && !eq(zero, b1), Classes: valueClasses(c, b1)}
}

func propC04(t *testing.T, reg *Registry) {
	items := filterItems(reg, func(it Item) bool { return it.HasTL1() && it.HasTL2() })
	if len(items) == 0 {
		return
	}
	pbt.Run(t, "tl1-tl2-tl1/"+reg.SetName, perType(len(items), 150, 1500), func(rt *rapid.T) ValCase { return genVal(rt, items, false) }, func(c ValCase) pbt.Result { return checkC04(reg, c) })
}

// ---- C05 JSON round trip ---------------------------------------------------------------------

type jsonCase struct {
	ValCase
	Opts JSONOpts `json:"json_opts"`
}

func checkC05(reg *Registry, c jsonCase) pbt.Result {
	obj, it, err := reg.Make(c.ValCase)
	if err != nil {
		return pbt.Result{Err: err}
	}
	if pbt.Known("F24") && !pbt.Replaying() && HasNegZero(obj) {
		return pbt.Result{Excluded: "F24"}
	}
	if pbt.Known("F25") && !pbt.Replaying() && HasNonUTF8DictKey(obj) {
		return pbt.Result{Excluded: "F25"}
	}
	j, err := jsonOf(obj, c.Opts)
	if err != nil {
		return pbt.Fail("%s: WriteJSONGeneral: %v", c.Item, err)
	}
	if !json.Valid(j) {
		return pbt.Fail("%s: WriteJSONGeneral produced invalid JSON: %s", c.Item, strHead(j))
	}
	fresh := Create(it, c.Bytes)
	if err := readJSON(fresh, j, c.Opts); err != nil {
		return pbt.Fail("%s: ReadJSONGeneral rejects the JSON its writer produced: %v; JSON %s", c.Item, err, strHead(j))
	}
	j2, err := jsonOf(fresh, c.Opts)
	if err != nil || !eq(j2, j) {
		return pbt.Fail("%s: JSON changes after a round trip:\n first  %s\n second %s (err %v)", c.Item, strHead(j), strHead(j2), err)
	}
	nan := HasNaN(obj) // NaN payloads are one JSON value ("NaN"): binary encodings are compared only without NaNs
	cls := valueClasses(c.ValCase, j)
	if nan {
		cls = append(cls, "has-nan")
	}
	if !nan {
		if it.HasTL1() {
			a, e1 := tl1(obj)
			b, e2 := tl1(fresh)
			if (e1 == nil) != (e2 == nil) || (e1 == nil && !eq(a, b)) {
				return pbt.Fail("%s: TL1 encoding changes after a JSON round trip: %s (errs %v / %v); JSON %s", c.Item, diffAt(a, b), e1, e2, strHead(j))
			}
		}
		if it.HasTL2() {
			a, e1 := tl2(obj, nil)
			b, e2 := tl2(fresh, nil)
			if e1 != nil || e2 != nil || !eq(a, b) {
				return pbt.Fail("%s: TL2 encoding changes after a JSON round trip: %s vs %s (errs %v / %v); JSON %s", c.Item, hexHead(a), hexHead(b), e1, e2, strHead(j))
			}
		}
	}
	zero, _ := jsonOf(Create(it, c.Bytes), c.Opts)
	return pbt.Result{NonTrivial: len(j) >= 8 && !eq(zero, j), Classes: cls}
}

func propC05(t *testing.T, reg *Registry) {
	items := reg.Items
	pbt.Run(t, "json-roundtrip/"+reg.SetName, perType(len(items), 150, 1500), func(rt *rapid.T) jsonCase {
		return jsonCase{ValCase: genVal(rt, items, true), Opts: JSONOpts{Legacy: rapid.Bool().Draw(rt, "legacy")}} // Short transcodes a long-ID type into its short twin's spelling: not a round-trip option
	}, func(c jsonCase) pbt.Result { return checkC05(reg, c) })
}
