package gch

import (
	"encoding/binary"

	"pgregory.net/rapid"
)

// byteEdit is one structured mutation of an encoding; positions are given in permille of the current length so
// that an edit list stays meaningful while rapid shrinks the value it is applied to.
type byteEdit struct {
	Kind string `json:"k"` // flip word trunc insert del nonzero strform dup tl2huge
	Pos  int    `json:"pos"`
	Val  uint32 `json:"val"`
	N    int    `json:"n"`
}

var wordTable = []uint32{0, 1, 2, 0xFFFFFFFF, 0x7FFFFFFF, 0x80000000, 254, 255, 256, 0x997275b5, 0xbc799737, 0x3fedd339, 0x40000000, 0x40000003, 0xC0000002, 1 << 24, 1<<24 - 1}

func genEdits(rt *rapid.T, maxN int) []byteEdit {
	n := rapid.IntRange(1, maxN).Draw(rt, "nedits")
	var out []byteEdit
	for i := 0; i < n; i++ {
		e := byteEdit{
			Kind: rapid.SampledFrom([]string{"flip", "flip", "word", "word", "word", "trunc", "trunc", "insert", "del", "nonzero", "nonzero", "strform", "strform", "dup", "tl2huge"}).Draw(rt, "kind"),
			Pos:  rapid.IntRange(0, 1000).Draw(rt, "pos"),
			N:    rapid.IntRange(1, 8).Draw(rt, "n"),
		}
		if rapid.Bool().Draw(rt, "table") {
			e.Val = rapid.SampledFrom(wordTable).Draw(rt, "val")
		} else {
			e.Val = rapid.Uint32().Draw(rt, "val")
		}
		out = append(out, e)
	}
	return out
}

func applyEdits(src []byte, edits []byteEdit) []byte {
	b := append([]byte{}, src...)
	for _, e := range edits {
		pos := 0
		if len(b) > 0 {
			pos = min(len(b)-1, e.Pos*len(b)/1000)
		}
		switch e.Kind {
		case "flip":
			if len(b) > 0 {
				b[pos] ^= byte(e.Val) | 1
			}
		case "word":
			p := pos &^ 3
			if p+4 <= len(b) {
				binary.LittleEndian.PutUint32(b[p:], e.Val)
			}
		case "trunc":
			b = b[:min(len(b), e.Pos*(len(b)+1)/1000)]
		case "insert":
			ins := make([]byte, e.N)
			for i := range ins {
				ins[i] = byte(e.Val >> (8 * (i % 4)))
			}
			p := pos &^ 3
			b = append(b[:p:p], append(ins, b[p:]...)...)
		case "del":
			p := pos &^ 3
			end := min(len(b), p+e.N)
			b = append(b[:p:p], b[end:]...)
		case "nonzero": // e.g. TL1 string padding, zero high bytes of counts, TL2 mask bits
			for i := pos; i < len(b); i++ {
				if b[i] == 0 {
					b[i] = byte(e.Val) | 1
					break
				}
			}
		case "strform": // re-encode a tiny-form TL1 string found at an aligned offset in the medium form
			for p := pos &^ 3; p+4 <= len(b); p += 4 {
				l := int(b[p])
				if l >= 1 && l <= 253 && p+1+l <= len(b) {
					end := p + (1+l+3)&^3
					if end > len(b) {
						continue
					}
					re := []byte{254, byte(l), 0, 0}
					re = append(re, b[p+1:p+1+l]...)
					for len(re)%4 != 0 {
						re = append(re, 0)
					}
					b = append(b[:p:p], append(re, b[end:]...)...)
					break
				}
			}
		case "dup":
			end := min(len(b), pos+e.N*4)
			b = append(b[:end:end], append(append([]byte{}, b[pos:end]...), b[end:]...)...)
		case "strnonmin": // re-encode the first TL1 string holding N bytes 'x' in the next longer (non-minimal) length form
			pat := make([]byte, e.N)
			for i := range pat {
				pat[i] = 'x'
			}
			idx := indexAligned(b, pat, e.N)
			if idx < 0 {
				break
			}
			if e.N <= 253 {
				p := idx - 1
				end := p + (1+e.N+3)&^3
				if end > len(b) {
					break
				}
				re := append([]byte{254, byte(e.N), byte(e.N >> 8), 0}, pat...)
				for len(re)%4 != 0 {
					re = append(re, 0)
				}
				b = append(b[:p:p], append(re, b[end:]...)...)
			} else {
				p := idx - 4
				end := p + (4+e.N+3)&^3
				if end > len(b) {
					break
				}
				re := append([]byte{255, byte(e.N), byte(e.N >> 8), byte(e.N >> 16), 0, 0, 0, 0}, pat...)
				for len(re)%4 != 0 {
					re = append(re, 0)
				}
				b = append(b[:p:p], append(re, b[end:]...)...)
			}
		case "tl2big": // replace a byte by a huge-form size/count of about 2^Val
			if len(b) > 0 {
				big := []byte{255, 0, 0, 0, 0, 0, 0, 0, 0}
				binary.LittleEndian.PutUint64(big[1:], uint64(1)<<(e.Val%64)-1+uint64(e.N))
				b = append(b[:pos:pos], append(big, b[pos+1:]...)...)
			}
		case "tl2huge": // rewrite a small TL2 size byte into the huge form (non-minimal, admissible)
			if len(b) > 0 && b[pos] < 254 {
				huge := []byte{255, b[pos], 0, 0, 0, 0, 0, 0, 0}
				b = append(b[:pos:pos], append(huge, b[pos+1:]...)...)
			}
		}
	}
	return b
}
