package c19

import (
	"strings"

	"pgregory.net/rapid"
)

// Loose grammar generators: they follow internal/tlast/grammar.txt and grammar.tl2.txt but deliberately deviate
// (wrong token class in a slot, dropped / duplicated / substituted tokens, early end of input) with a per-text
// noise probability, so that inputs of the form "valid construct, then something unexpected inside it" are common.

type emitter struct {
	rt    *rapid.T
	sb    strings.Builder
	noise int // percent
	soup  []string
	stop  bool
	budget int
}

func (e *emitter) tok(s string) {
	if e.stop {
		return
	}
	e.budget--
	if e.budget <= 0 {
		e.stop = true
		return
	}
	if e.noise > 0 && rapid.IntRange(0, 99).Draw(e.rt, "nz") < e.noise {
		switch rapid.IntRange(0, 4).Draw(e.rt, "nk") {
		case 0: // drop
			return
		case 1: // substitute
			s = rapid.SampledFrom(e.soup).Draw(e.rt, "sub")
		case 2: // duplicate
			e.sb.WriteString(s)
			e.sb.WriteByte(' ')
		case 3: // insert junk before
			e.sb.WriteString(rapid.SampledFrom(e.soup).Draw(e.rt, "ins"))
			e.sb.WriteByte(' ')
		case 4: // end of input here
			e.stop = true
			return
		}
	}
	e.sb.WriteString(s)
	if rapid.IntRange(0, 9).Draw(e.rt, "ws") < 7 {
		e.sb.WriteByte(' ')
	}
}

func (e *emitter) pick(xs ...string) string { return rapid.SampledFrom(xs).Draw(e.rt, "pick") }
func (e *emitter) n(lo, hi int) int          { return rapid.IntRange(lo, hi).Draw(e.rt, "n") }
func (e *emitter) p(percent int) bool        { return rapid.IntRange(0, 99).Draw(e.rt, "p") < percent }

var lcNames = []string{"a", "b", "x", "y", "n", "foo", "fields_mask", "ns.foo", "ns2.barBaz", "int", "long", "string", "vector", "tuple", "dictionary"}
var ucNames = []string{"A", "Foo", "Int", "Long", "String", "Vector", "Tuple", "Maybe", "Bool", "True", "ns.Foo", "ns2.BarBaz", "T", "X"}
var numbers = []string{"0", "1", "2", "3", "31", "32", "255", "4294967295", "4294967296"}

// ---- TL1 ----

func (e *emitter) tl1Arith(depth int) {
	switch {
	case depth > 3 || e.p(45):
		if e.p(8) {
			e.tl1Type(depth + 1) // wrong class in an arithmetic slot
		} else {
			e.tok(e.pick(numbers...))
		}
	case e.p(50):
		e.tl1Arith(depth + 1)
		e.tok("+")
		e.tl1Arith(depth + 1)
	default:
		e.tok("(")
		e.tl1Arith(depth + 1)
		e.tok(")")
	}
}

func (e *emitter) tl1Type(depth int) {
	if depth > 4 {
		e.tok(e.pick("int", "Foo", "#"))
		return
	}
	switch e.n(0, 11) {
	case 0, 1, 2:
		e.tok(e.pick(lcNames...))
	case 3, 4:
		e.tok(e.pick(ucNames...))
	case 5:
		e.tok("#")
	case 6:
		e.tok("%")
		e.tok(e.pick(ucNames...))
	case 7: // ( T args )
		e.tok("(")
		if e.p(20) {
			e.tok("%")
		}
		e.tok(e.pick(append(lcNames, ucNames...)...))
		for i := e.n(0, 3); i > 0; i-- {
			if e.p(35) {
				e.tl1Arith(depth + 1)
			} else {
				e.tl1Type(depth + 1)
			}
		}
		e.tok(")")
	case 8: // T<a,b>
		e.tok(e.pick(append(lcNames, ucNames...)...))
		e.tok("<")
		k := e.n(1, 3)
		for i := 0; i < k; i++ {
			if i > 0 {
				e.tok(",")
			}
			if e.p(35) {
				e.tl1Arith(depth + 1)
			} else {
				e.tl1Type(depth + 1)
			}
		}
		e.tok(">")
	case 9: // repetition
		if e.p(60) {
			if e.p(50) {
				e.tok(e.pick("n", "x", "fields_mask"))
			} else {
				e.tl1Arith(depth + 1)
			}
			e.tok("*")
		}
		e.tok("[")
		for i := e.n(1, 2); i > 0; i-- {
			e.tl1Field(depth + 1)
		}
		e.tok("]")
	case 10:
		e.tl1Arith(depth + 1)
	case 11:
		e.tok("?")
	}
}

func (e *emitter) tl1Field(depth int) {
	if e.p(80) {
		e.tok(e.pick("a", "b", "x", "y", "n", "fields_mask", "type", "A"))
		e.tok(":")
	}
	if e.p(10) {
		e.tok("!")
	}
	if e.p(25) {
		e.tok(e.pick("n", "fields_mask", "x"))
		e.tok(".")
		e.tok(e.pick(numbers...))
		e.tok("?")
	}
	e.tl1Type(depth)
}

func (e *emitter) tl1Combinator(function bool) {
	if function && e.p(70) {
		for i := e.n(1, 2); i > 0; i-- {
			e.tok(e.pick("@any", "@read", "@write", "@readwrite", "@internal", "@kphp", "@foo"))
		}
	}
	e.tok(e.pick(lcNames...))
	if e.p(50) {
		e.tok(e.pick("#1f2e3d4c", "#00000001", "#ffffffff", "#0", "#1F2E3D4C", "#123"))
	}
	for i := e.n(0, 2); i > 0 && e.p(40); i-- {
		e.tok("{")
		e.tok(e.pick("T", "X", "n", "t"))
		e.tok(":")
		e.tok(e.pick("Type", "#", "int"))
		e.tok("}")
	}
	for i := e.n(0, 4); i > 0; i-- {
		e.tl1Field(0)
	}
	e.tok("=")
	if function {
		e.tl1Type(1)
	} else {
		e.tok(e.pick(ucNames...))
		for i := e.n(0, 2); i > 0 && e.p(40); i-- {
			e.tok(e.pick("T", "X", "n", "t"))
		}
	}
	e.tok(";")
}

func genGrammarTL1(rt *rapid.T) string {
	e := &emitter{rt: rt, noise: rapid.SampledFrom([]int{0, 0, 2, 5, 10, 25}).Draw(rt, "noise"), soup: soupTL1, budget: 400}
	k := e.n(1, 4)
	fn := false
	for i := 0; i < k && !e.stop; i++ {
		if e.p(20) {
			fn = !fn
			if fn {
				e.tok("---functions---")
			} else {
				e.tok("---types---")
			}
		}
		if e.p(15) {
			e.sb.WriteString("// comment\n")
		}
		e.tl1Combinator(fn)
	}
	return e.sb.String()
}

// ---- TL2 ----

var tl2Names = []string{"a", "b", "x", "y", "foo", "ns.foo", "ns2.barBaz", "int32", "int64", "uint32", "string", "bool", "bit", "Foo", "ns.Foo"}

func (e *emitter) tl2TypeRef(depth int) {
	if depth > 4 {
		e.tok("int32")
		return
	}
	if e.p(30) {
		e.tok("[")
		if e.p(60) {
			e.tl2TypeArg(depth + 1)
		}
		e.tok("]")
		e.tl2TypeRef(depth + 1)
		return
	}
	e.tok(e.pick(tl2Names...))
	if e.p(30) {
		e.tok("<")
		k := e.n(1, 3)
		for i := 0; i < k; i++ {
			if i > 0 {
				e.tok(",")
			}
			e.tl2TypeArg(depth + 1)
		}
		e.tok(">")
	}
}

func (e *emitter) tl2TypeArg(depth int) {
	if e.p(35) {
		e.tok(e.pick(numbers...))
	} else {
		e.tl2TypeRef(depth)
	}
}

func (e *emitter) tl2Field() {
	switch {
	case e.p(10):
		e.tok("_")
	case e.p(10):
		e.tok(e.pick("_old", "_x1"))
	default:
		e.tok(e.pick("a", "b", "x", "y", "value", "Type", "n"))
		if e.p(30) {
			e.tok("?")
		}
	}
	e.tok(":")
	e.tl2TypeRef(0)
}

func (e *emitter) tl2Combinator() {
	for i := e.n(0, 2); i > 0 && e.p(40); i-- {
		e.tok(e.pick("@read", "@write", "@any", "@tl1", "@Foo"))
	}
	e.tok(e.pick(tl2Names...))
	if e.p(50) {
		e.tok(e.pick("#1f2e3d4c", "#00000001", "#ffffffff", "#0", "#1F2E3D4C"))
	}
	if e.p(25) { // function
		for i := e.n(0, 3); i > 0; i-- {
			e.tl2Field()
		}
		e.tok("=>")
		switch e.n(0, 2) {
		case 0:
			e.tl2TypeRef(0)
		case 1:
			e.tok("<=>")
			e.tl2TypeRef(0)
		case 2:
			for i := e.n(0, 3); i > 0; i-- {
				e.tl2Field()
			}
		}
		e.tok(";")
		return
	}
	if e.p(35) {
		e.tok("<")
		k := e.n(1, 3)
		for i := 0; i < k; i++ {
			if i > 0 {
				e.tok(",")
			}
			e.tok(e.pick("t", "k", "v", "n", "X"))
			e.tok(":")
			e.tok(e.pick("Type", "#", "type", "int32"))
		}
		e.tok(">")
	}
	switch e.n(0, 3) {
	case 0: // alias
		e.tok("<=>")
		e.tl2TypeRef(0)
	case 1: // struct
		e.tok("=")
		for i := e.n(0, 5); i > 0; i-- {
			e.tl2Field()
		}
	default: // union
		e.tok("=")
		k := e.n(1, 4)
		lead := e.p(50)
		for i := 0; i < k; i++ {
			if i > 0 || lead {
				e.tok("|")
			}
			e.tok(e.pick("first", "second", "Third", "a", "b"))
			if e.p(30) {
				e.tl2TypeRef(0)
			} else {
				for j := e.n(0, 3); j > 0; j-- {
					e.tl2Field()
				}
			}
		}
	}
	e.tok(";")
}

func genGrammarTL2(rt *rapid.T) string {
	e := &emitter{rt: rt, noise: rapid.SampledFrom([]int{0, 0, 2, 5, 10, 25}).Draw(rt, "noise"), soup: soupTL2, budget: 400}
	k := e.n(1, 4)
	for i := 0; i < k && !e.stop; i++ {
		if e.p(15) {
			e.sb.WriteString("// comment\n")
		}
		e.tl2Combinator()
	}
	return e.sb.String()
}
