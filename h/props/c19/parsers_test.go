// Package c19 holds the checks for C19 (TL1 parser) and C20 (TL2 parser): totality and in-range error positions.
package c19

import (
	"bytes"
	"errors"
	"fmt"
	"os"
	"strings"
	"testing"

	"github.com/VKCOM/tl/internal/tlast"
	"github.com/VKCOM/tl/verifh/pbt"
	"pgregory.net/rapid"
)

type parseCase struct {
	Text         pbt.HexBytes `json:"text_hex"`
	Preview      string       `json:"preview"`
	AllowBuiltin bool         `json:"allow_builtin"`
	AllowDirty   bool         `json:"allow_dirty"`
	Origin       string       `json:"origin"`
}

var tl1Files = []string{
	"internal/tlcodegen/test/tls/cases.tl", "internal/tlcodegen/test/tls/goldmaster.tl", "internal/tlcodegen/test/tls/schema.tl",
	"pkg/rpc/rpc.tl", "internal/tlast/tls.tl", "cmd/tl2client/test.tl",
}
var tl2Files = []string{"internal/tlcodegen/test/tls/cases.tl2", "cmd/tl2client/test.tl2"}

// statements of the repository schemas (the structured part of the corpus)
func loadStatements(files []string) []string {
	var out []string
	for _, f := range files {
		b, err := os.ReadFile("/repo/" + f)
		if err != nil {
			continue
		}
		text := string(b)
		start := 0
		for i := 0; i < len(text); i++ {
			if text[i] == ';' {
				out = append(out, text[start:i+1])
				start = i + 1
			}
		}
	}
	if len(out) == 0 {
		out = []string{"a#01020304 x:int = A;"}
	}
	return out
}

var soupTL1 = []string{"a", "b.c", "Foo", "ns.Bar", "x", "n", "#", "#1f2e3d4c", "#ABCDEF01", "#0", ":", ";", "=", "?", "!", "*", "+", "%", "(", ")", "[", "]", "{", "}", "<", ">", ",", ".", "0", "1", "32", "4294967296",
	"---types---", "---functions---", "---", "--", "@any", "@read", "@", "// c\n", "//\xff\n", "/*", "/", "\n", "\r\n", "\t", " ", "_", "_x", "|", "int", "Vector", "vector", "Type", "=>", "<=>", "x:int", "n.0?", "fields_mask.31?"}
var soupTL2 = []string{"a", "b.c", "Foo", "ns.bar", "x", "#", "#1f2e3d4c", "#0", ":", ";", "=", "?", "*", "+", "(", ")", "[", "]", "{", "}", "<", ">", ",", ".", "0", "1", "32",
	"@any", "@read", "@", "// c\n", "//\xff\n", "/*", "\n", "\r\n", " ", "_", "_x", "|", "int32", "string", "bool", "bit", "Type", "type", "=>", "<=>", "x:int32", "y?:string", "[]", "[3]", "[string]", "@tl1", "#ffffffff"}

func genText(rt *rapid.T, stmts []string, soup []string, grammar func(*rapid.T) string) (string, string) {
	mode := rapid.SampledFrom([]string{"stmts", "stmts-mutated", "stmts-mutated", "stmts-mutated", "stmts-truncated", "soup", "bytes", "grammar", "grammar", "grammar", "grammar"}).Draw(rt, "mode")
	var sb strings.Builder
	switch mode {
	case "grammar":
		return grammar(rt), mode
	case "bytes":
		return string(rapid.SliceOfN(rapid.Byte(), 0, 60).Draw(rt, "bytes")), mode
	case "soup":
		n := rapid.IntRange(1, 40).Draw(rt, "n")
		for i := 0; i < n; i++ {
			sb.WriteString(rapid.SampledFrom(soup).Draw(rt, "tok"))
			if rapid.IntRange(0, 2).Draw(rt, "sp") > 0 {
				sb.WriteByte(' ')
			}
		}
		return sb.String(), mode
	}
	k := rapid.IntRange(1, 4).Draw(rt, "k")
	for i := 0; i < k; i++ {
		sb.WriteString(stmts[rapid.IntRange(0, len(stmts)-1).Draw(rt, "stmt")])
	}
	text := sb.String()
	switch mode {
	case "stmts-truncated":
		// cut at a token-ish boundary or anywhere
		if len(text) > 0 {
			text = text[:rapid.IntRange(0, len(text)).Draw(rt, "cut")]
		}
	case "stmts-mutated":
		m := rapid.IntRange(1, 3).Draw(rt, "m")
		for i := 0; i < m && len(text) > 0; i++ {
			pos := rapid.IntRange(0, len(text)-1).Draw(rt, "pos")
			switch rapid.IntRange(0, 5).Draw(rt, "kind") {
			case 0: // delete a short range
				end := min(len(text), pos+rapid.IntRange(1, 6).Draw(rt, "len"))
				text = text[:pos] + text[end:]
			case 1: // insert a token
				text = text[:pos] + rapid.SampledFrom(soup).Draw(rt, "tok") + text[pos:]
			case 2: // replace a byte
				text = text[:pos] + string([]byte{rapid.Byte().Draw(rt, "b")}) + text[pos+1:]
			case 3: // duplicate a range
				end := min(len(text), pos+rapid.IntRange(1, 12).Draw(rt, "len"))
				text = text[:end] + text[pos:end] + text[end:]
			case 4: // replace the token-ish word at pos by a soup token
				end := pos
				for end < len(text) && !strings.ContainsRune(" \n\t:;()[]<>{},", rune(text[end])) {
					end++
				}
				text = text[:pos] + rapid.SampledFrom(soup).Draw(rt, "tok") + text[end:]
			case 5: // truncate
				text = text[:pos]
			}
		}
	}
	return text, mode
}

func preview(s string) string {
	if len(s) > 160 {
		s = s[:160] + "..."
	}
	return strings.ToValidUTF8(s, "�")
}

// checkError validates the error contract shared by both parsers.
func checkError(text string, err error) error {
	var pe *tlast.ParseError
	if !errors.As(err, &pe) {
		return fmt.Errorf("parser returned an error without a position: %T %v", err, err)
	}
	type pt struct {
		name string
		p    tlast.Position
	}
	var offs [3]int
	for i, q := range []pt{{"Outer", pe.Pos.Outer}, {"Begin", pe.Pos.Begin}, {"End", pe.Pos.End}} {
		fc, off, slo, line, col := tlast.VerifPosition(q.p)
		if fc != text {
			return fmt.Errorf("error %q: position %s does not refer to the parsed text (context length %d, text length %d)", err, q.name, len(fc), len(text))
		}
		if off < 0 || off > len(text) {
			return fmt.Errorf("error %q: position %s offset %d outside the text [0,%d]", err, q.name, off, len(text))
		}
		if slo < 0 || slo > off {
			return fmt.Errorf("error %q: position %s line start %d not in [0,offset %d]", err, q.name, slo, off)
		}
		if line < 1 || col < 1 {
			return fmt.Errorf("error %q: position %s has line %d column %d", err, q.name, line, col)
		}
		offs[i] = off
	}
	if offs[1] > offs[2] {
		return fmt.Errorf("error %q: Begin offset %d after End offset %d", err, offs[1], offs[2])
	}
	var buf bytes.Buffer
	pe.ConsolePrint(&buf, err, false)
	pe.PrintWarning(&buf, err)
	if strings.Contains(buf.String(), "context corrupted") {
		return fmt.Errorf("error %q: printing reports a corrupted context", err)
	}
	_ = pe.Error()
	return nil
}

func classify(tokens int, lexOK bool, err error) []string {
	switch {
	case err == nil:
		return []string{"parsed"}
	case !lexOK:
		return []string{"lexer-error"}
	default:
		return []string{"parser-error"}
	}
}

func checkTL1(c parseCase) pbt.Result {
	text := string(c.Text)
	opts := tlast.LexerOptions{AllowBuiltin: c.AllowBuiltin, AllowDirty: c.AllowDirty, LexerLanguage: tlast.TL1}
	tl, err := tlast.ParseTLFile(text, "file.tl", opts)
	if err != nil {
		if e := checkError(text, err); e != nil {
			return pbt.Result{Err: e}
		}
	} else {
		if tl == nil {
			return pbt.Fail("ParseTLFile returned neither a schema nor an error")
		}
		_ = tl.String() // printing a parsed schema must not panic either
	}
	n, lexOK := tlast.VerifTokenCount(text, opts)
	return pbt.Result{NonTrivial: n >= 5, Classes: append(classify(n, lexOK, err), "origin-"+c.Origin)}
}

func checkTL2(c parseCase) pbt.Result {
	text := string(c.Text)
	opts := tlast.LexerOptions{AllowBuiltin: c.AllowBuiltin, AllowDirty: c.AllowDirty, LexerLanguage: tlast.TL2}
	f, err := tlast.ParseTL2File(text, "file.tl2", opts)
	if err != nil {
		if e := checkError(text, err); e != nil {
			return pbt.Result{Err: e}
		}
	} else {
		_ = f.String()
	}
	n, lexOK := tlast.VerifTokenCount(text, opts)
	return pbt.Result{NonTrivial: n >= 5, Classes: append(classify(n, lexOK, err), "origin-"+c.Origin)}
}

func TestC19TL1Parser(t *testing.T) {
	stmts := loadStatements(tl1Files)
	pbt.Run(t, "tl1-parse", pbt.Scale(160000, 4000000), func(rt *rapid.T) parseCase {
		text, origin := genText(rt, stmts, soupTL1, genGrammarTL1)
		return parseCase{Text: pbt.HexBytes(text), Preview: preview(text), AllowBuiltin: rapid.Bool().Draw(rt, "builtin"), AllowDirty: rapid.Bool().Draw(rt, "dirty"), Origin: origin}
	}, checkTL1)
}

func TestC20TL2Parser(t *testing.T) {
	stmts := loadStatements(tl2Files)
	pbt.Run(t, "tl2-parse", pbt.Scale(160000, 4000000), func(rt *rapid.T) parseCase {
		text, origin := genText(rt, stmts, soupTL2, genGrammarTL2)
		return parseCase{Text: pbt.HexBytes(text), Preview: preview(text), Origin: origin}
	}, checkTL2)
}

// every prefix of every repository file (exhaustive truncation): cheap and reaches "input ends inside construct X" for all X
func prefixes(files []string, check func(parseCase) pbt.Result, label string, t *testing.T) {
	stmts := loadStatements(files)
	pbt.Enumerate(t, label, func(yield func(parseCase) bool) {
		for _, s := range stmts {
			s = strings.TrimLeft(s, " \t\r\n")
			if len(s) > 400 {
				continue
			}
			for cut := 0; cut <= len(s); cut++ {
				if !yield(parseCase{Text: pbt.HexBytes(s[:cut]), Preview: preview(s[:cut]), Origin: "prefix"}) {
					return
				}
			}
		}
	}, check)
}

func TestC19TL1Prefixes(t *testing.T) {
	prefixes(tl1Files[:2], checkTL1, "tl1-statement-prefixes", t)
}

func TestC20TL2Prefixes(t *testing.T) {
	prefixes(tl2Files, checkTL2, "tl2-statement-prefixes", t)
}
