package c19

import (
	"testing"

	"github.com/VKCOM/tl/verifh/pbt"
)

// Native coverage-guided fuzzing of the two parsers (thorough tier only; the driver passes -test.fuzz). The oracle is the
// same function the rapid properties use; a failure is saved in the replay format of the corresponding rapid test, so
// `vcheck C19 --replay` re-executes it without the fuzzer.

func fuzzParser(f *testing.F, files []string, soup []string, label string, check func(parseCase) pbt.Result) {
	for _, s := range loadStatements(files) {
		f.Add([]byte(s), uint8(0))
	}
	for _, s := range soup {
		f.Add([]byte(s), uint8(3))
	}
	f.Add([]byte("a.b#12345678 {t:Type} {n:#} x:n.3?%(Vector t) y:n*[int] = a.B t n;"), uint8(1))
	f.Fuzz(func(t *testing.T, data []byte, flags uint8) {
		if len(data) > 1<<16 {
			return
		}
		c := parseCase{Text: pbt.HexBytes(data), Preview: preview(string(data)), AllowBuiltin: flags&1 != 0, AllowDirty: flags&2 != 0, Origin: "native-fuzz"}
		if res := pbt.Safe(check, c); res.Err != nil {
			pbt.SaveReplay(label, c, res.Err)
			t.Fatalf("%v", res.Err)
		}
	})
}

func FuzzC19TL1(f *testing.F) { fuzzParser(f, tl1Files, soupTL1, "tl1-parse", checkTL1) }
func FuzzC20TL2(f *testing.F) { fuzzParser(f, tl2Files, soupTL2, "tl2-parse", checkTL2) }
