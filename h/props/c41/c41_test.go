package c41

import (
	"fmt"
	"sort"
	"testing"

	"github.com/VKCOM/tl/internal/vkgo/pkg/algo"
	"github.com/VKCOM/tl/verifh/pbt"
	"pgregory.net/rapid"
)

// ---------------- TreeMap ------------------------------------------------------

type intLess struct{}

func (intLess) Cmp(a, b int) bool { return a < b }

type tmOp struct {
	Op  string `json:"op"` // set get getptr delete front back empty lenmore
	Key int    `json:"k"`
	Val int    `json:"v"`
}

type tmHistory struct {
	Keys int    `json:"keys"`
	Ops  []tmOp `json:"ops"`
}

func genTM(rt *rapid.T) tmHistory {
	h := tmHistory{Keys: rapid.SampledFrom([]int{8, 32, 32, 10000}).Draw(rt, "keys")}
	n := rapid.IntRange(1, 120).Draw(rt, "n")
	mode := rapid.IntRange(0, 3).Draw(rt, "mode") // 0 mixed, 1 ascending inserts first, 2 descending inserts first, 3 insert-heavy
	for i := 0; i < n; i++ {
		var op tmOp
		op.Key = rapid.IntRange(0, h.Keys-1).Draw(rt, "k")
		op.Val = rapid.IntRange(0, 1000).Draw(rt, "v")
		switch {
		case mode == 1 && i < n/2:
			op.Op, op.Key = "set", i%h.Keys
		case mode == 2 && i < n/2:
			op.Op, op.Key = "set", (h.Keys-1-i%h.Keys+h.Keys)%h.Keys
		default:
			ws := []string{"set", "set", "set", "delete", "delete", "get", "getptr", "front", "back", "empty", "lenmore"}
			if mode == 3 {
				ws = append(ws, "set", "set", "set", "set")
			}
			op.Op = rapid.SampledFrom(ws).Draw(rt, "op")
		}
		h.Ops = append(h.Ops, op)
	}
	return h
}

type node struct {
	key, val    int
	stored      int32
	left, right *node
}

func checkTM(h tmHistory) pbt.Result {
	alloc := &algo.VerifCountingAllocator[algo.TreeNode[algo.Entry[int, int]]]{Inner: algo.NewSliceCacheAllocator[algo.TreeNode[algo.Entry[int, int]]]()}
	tm := algo.NewTreeMap[int, int, intLess](alloc)
	model := map[int]int{}
	rotated := false
	prevRoot, prevRootSet := 0, false
	for step, op := range h.Ops {
		where := fmt.Sprintf("step %d %s(%d,%d)", step, op.Op, op.Key, op.Val)
		keys := make([]int, 0, len(model))
		for k := range model {
			keys = append(keys, k)
		}
		sort.Ints(keys)
		switch op.Op {
		case "set":
			tm.Set(op.Key, op.Val)
			model[op.Key] = op.Val
		case "delete":
			tm.Delete(op.Key)
			delete(model, op.Key)
		case "get":
			v, ok := tm.Get(op.Key)
			mv, mok := model[op.Key]
			if ok != mok || v != mv {
				return pbt.Fail("%s: got (%d,%v), ordered-map model says (%d,%v)", where, v, ok, mv, mok)
			}
		case "getptr":
			p := tm.GetPtr(op.Key)
			mv, mok := model[op.Key]
			if (p != nil) != mok || (p != nil && *p != mv) {
				return pbt.Fail("%s: GetPtr disagrees with the model (%d,%v)", where, mv, mok)
			}
			if p != nil { // update through the pointer
				*p = op.Val
				model[op.Key] = op.Val
			}
		case "front", "back":
			if len(model) == 0 {
				if !tm.Empty() {
					return pbt.Fail("%s: Empty()=false on an empty map", where)
				}
				break // Front/Back on an empty map panic by contract
			}
			var e algo.Entry[int, int]
			want := keys[0]
			if op.Op == "front" {
				e = tm.Front()
			} else {
				e = tm.Back()
				want = keys[len(keys)-1]
			}
			if e.K != want || e.V != model[want] {
				return pbt.Fail("%s: got (%d,%d), model says (%d,%d)", where, e.K, e.V, want, model[want])
			}
		case "empty":
			if tm.Empty() != (len(model) == 0) {
				return pbt.Fail("%s: Empty()=%v with %d entries", where, tm.Empty(), len(model))
			}
		case "lenmore":
			if tm.LenMoreThan1() != (len(model) > 1) {
				return pbt.Fail("%s: LenMoreThan1()=%v with %d entries", where, tm.LenMoreThan1(), len(model))
			}
		}
		// rebuild the tree shape from the pre-order walk
		type item struct {
			k, v   int
			h      int32
			hl, hr bool
		}
		var items []item
		algo.VerifWalk(&tm, func(k int, v int, sh int32, hl, hr bool) { items = append(items, item{k, v, sh, hl, hr}) })
		pos := 0
		var build func() *node
		build = func() *node {
			it := items[pos]
			pos++
			n := &node{key: it.k, val: it.v, stored: it.h}
			if it.hl {
				n.left = build()
			}
			if it.hr {
				n.right = build()
			}
			return n
		}
		var root *node
		if len(items) > 0 {
			root = build()
		}
		// in-order = sorted model
		var inorder []int
		var worst int
		var rec func(n *node) int
		rec = func(n *node) int {
			if n == nil {
				return 0
			}
			hl := rec(n.left)
			inorder = append(inorder, n.key)
			if mv, ok := model[n.key]; !ok || mv != n.val {
				worst = 99
			}
			hr := rec(n.right)
			d := hl - hr
			if d < 0 {
				d = -d
			}
			if d > worst {
				worst = d
			}
			return 1 + max(hl, hr)
		}
		rec(root)
		if worst == 99 {
			return pbt.Fail("%s: tree holds a key/value the model does not", where)
		}
		mkeys := make([]int, 0, len(model))
		for k := range model {
			mkeys = append(mkeys, k)
		}
		sort.Ints(mkeys)
		if fmt.Sprint(inorder) != fmt.Sprint(mkeys) {
			return pbt.Fail("%s: in-order keys %v, model %v", where, inorder, mkeys)
		}
		if worst > 1 {
			return pbt.Fail("%s: tree not AVL-balanced: some node has subtree heights differing by %d (keys in-order %v)", where, worst, inorder)
		}
		if alloc.Allocated-alloc.Deallocated != len(model) {
			return pbt.Fail("%s: allocator balance %d-%d != %d entries", where, alloc.Allocated, alloc.Deallocated, len(model))
		}
		if root != nil {
			if prevRootSet && prevRoot != root.key && len(model) > 2 {
				rotated = true
			}
			prevRoot, prevRootSet = root.key, true
		} else {
			prevRootSet = false
		}
	}
	cls := []string{"tm", fmt.Sprintf("keys-%d", h.Keys)}
	if rotated {
		cls = append(cls, "root-rotation")
	}
	return pbt.Result{NonTrivial: len(h.Ops) >= 20 && rotated, Classes: cls}
}

func TestC41TreeMap(t *testing.T) {
	pbt.Run(t, "treemap-history", pbt.Scale(6000, 600000), genTM, checkTM)
}

// ---------------- CircularSlice --------------------------------------------------

type csOp struct {
	Op  string `json:"op"` // push pop front index setref reserve clear swap deepassign slices
	Arg int    `json:"a"`
	Val int    `json:"v"`
}

type csHistory struct {
	Ops []csOp `json:"ops"`
}

func genCS(rt *rapid.T) csHistory {
	var h csHistory
	n := rapid.IntRange(1, 150).Draw(rt, "n")
	for i := 0; i < n; i++ {
		op := csOp{
			Op:  rapid.SampledFrom([]string{"push", "push", "push", "push", "pop", "pop", "pop", "front", "index", "setref", "reserve", "clear", "swap", "deepassign", "slices", "pushother"}).Draw(rt, "op"),
			Arg: rapid.IntRange(0, 40).Draw(rt, "a"),
			Val: rapid.IntRange(1, 1<<20).Draw(rt, "v"),
		}
		h.Ops = append(h.Ops, op)
	}
	return h
}

func checkCS(h csHistory) pbt.Result {
	var a, b algo.CircularSlice[int]
	var ma, mb []int
	wrapped := false
	same := func(s *algo.CircularSlice[int], m []int, name, where string) error {
		if s.Len() != len(m) {
			return fmt.Errorf("%s: %s.Len()=%d, model %d", where, name, s.Len(), len(m))
		}
		s1, s2 := s.Slices()
		if len(s2) > 0 {
			wrapped = true
		}
		got := append(append([]int{}, s1...), s2...)
		if fmt.Sprint(got) != fmt.Sprint(m) {
			return fmt.Errorf("%s: %s holds %v, FIFO model %v", where, name, got, m)
		}
		for i := range m {
			if s.Index(i) != m[i] || *s.IndexRef(i) != m[i] {
				return fmt.Errorf("%s: %s.Index(%d)=%d, model %d", where, name, i, s.Index(i), m[i])
			}
		}
		if s.Cap() < s.Len() {
			return fmt.Errorf("%s: %s.Cap()=%d < Len()=%d", where, name, s.Cap(), s.Len())
		}
		return nil
	}
	for step, op := range h.Ops {
		where := fmt.Sprintf("step %d %s(%d,%d)", step, op.Op, op.Arg, op.Val)
		switch op.Op {
		case "push":
			a.PushBack(op.Val)
			ma = append(ma, op.Val)
		case "pushother":
			b.PushBack(op.Val)
			mb = append(mb, op.Val)
		case "pop":
			if len(ma) == 0 {
				continue
			}
			if v := a.PopFront(); v != ma[0] {
				return pbt.Fail("%s: popped %d, model %d", where, v, ma[0])
			}
			ma = ma[1:]
		case "front":
			if len(ma) == 0 {
				continue
			}
			if v := a.Front(); v != ma[0] {
				return pbt.Fail("%s: Front()=%d, model %d", where, v, ma[0])
			}
		case "index":
			if len(ma) == 0 {
				continue
			}
			i := op.Arg % len(ma)
			if v := a.Index(i); v != ma[i] {
				return pbt.Fail("%s: Index(%d)=%d, model %d", where, i, v, ma[i])
			}
		case "setref":
			if len(ma) == 0 {
				continue
			}
			i := op.Arg % len(ma)
			*a.IndexRef(i) = op.Val
			ma[i] = op.Val
		case "reserve":
			before := a.Cap()
			a.Reserve(op.Arg)
			if a.Cap() < op.Arg || a.Cap() < before {
				return pbt.Fail("%s: Cap()=%d after Reserve(%d) (was %d)", where, a.Cap(), op.Arg, before)
			}
		case "clear":
			a.Clear()
			ma = ma[:0]
		case "swap":
			a.Swap(&b)
			ma, mb = mb, ma
		case "deepassign":
			a.DeepAssign(b)
			ma = append([]int{}, mb...)
		case "slices":
		}
		if err := same(&a, ma, "a", where); err != nil {
			return pbt.Result{Err: err}
		}
		if err := same(&b, mb, "b", where); err != nil {
			return pbt.Result{Err: err}
		}
	}
	cls := []string{"cs"}
	if wrapped {
		cls = append(cls, "wrap-around")
	}
	return pbt.Result{NonTrivial: len(h.Ops) >= 20 && wrapped, Classes: cls}
}

func TestC41CircularSlice(t *testing.T) {
	pbt.Run(t, "circular-slice-history", pbt.Scale(6000, 600000), genCS, checkCS)
}
