// Package c21 holds C21 (TL1 printer round trip) and C23 (implicit tags follow the canonical-form CRC32 rule).
package c21

import (
	"encoding/json"
	"fmt"
	"hash/crc32"
	"os"
	"path/filepath"
	"reflect"
	"strings"
	"testing"

	"github.com/VKCOM/tl/internal/tlast"
	"github.com/VKCOM/tl/verifh/pbt"
	"github.com/VKCOM/tl/verifh/schemagen"
	"pgregory.net/rapid"
)

type schemaCase struct {
	Schema *schemagen.Schema `json:"schema"`
	Layout schemagen.Layout  `json:"layout"`
	Text   string            `json:"text,omitempty"` // set for repository files / replays of literal texts
	File   string            `json:"file,omitempty"`
}

func genSchemaCase(rt *rapid.T) schemaCase {
	o := schemagen.DefaultOpts()
	o.EmptyElems = true
	s := schemagen.Generate(rt, o)
	// '!' markers are parsed and printed by the front end although the kernel restricts them: exercise them here
	for _, c := range s.Combs {
		for i := range c.Fields {
			if c.IsFunc && c.Fields[i].Type.Kind == "ref" && rapid.IntRange(0, 9).Draw(rt, "excl") == 0 {
				c.Fields[i].Excl = true
			}
		}
	}
	// a bare function result (= %Vector int) is refused by the kernel, but the parser and the printer know it
	for _, c := range s.Combs {
		if c.IsFunc && c.FuncResult != nil && c.FuncResult.Kind == "ref" && rapid.IntRange(0, 5).Draw(rt, "bareresult") == 0 {
			c.FuncResult.Bare = true
		}
	}
	return schemaCase{Schema: s, Layout: schemagen.Layout{Seed: rapid.Uint64().Draw(rt, "layout"), Level: rapid.IntRange(0, 1).Draw(rt, "level")}}
}

func models(tl *tlast.TL) []*schemagen.Comb {
	var out []*schemagen.Comb
	for _, c := range tl.Combinators() {
		out = append(out, schemagen.FromTlast(c))
	}
	return out
}

func modelJSON(m *schemagen.Comb) string {
	b, _ := json.Marshal(m)
	return string(b)
}

func checkC21(c schemaCase) pbt.Result {
	text := c.Text
	if text == "" {
		text = c.Schema.Text(c.Layout)
	}
	opts := tlast.LexerOptions{LexerLanguage: tlast.TL1, AllowDirty: c.File != ""}
	p1, err := tlast.ParseTLFile(text, "s.tl", opts)
	if err != nil {
		if c.File != "" {
			return pbt.Result{Classes: []string{"repository-file-not-parseable"}}
		}
		return pbt.Fail("harness: generated schema does not parse: %v", err)
	}
	printed := p1.String()
	p2, err := tlast.ParseTLFile(printed, "s.tl", opts)
	if err != nil {
		return pbt.Fail("printed schema does not parse: %v\n--- printed text around the error ---\n%s", err, excerpt(printed, err))
	}
	m1, m2 := models(p1), models(p2)
	if len(m1) != len(m2) {
		return pbt.Fail("printing and re-parsing changes the number of combinators: %d -> %d", len(m1), len(m2))
	}
	rich := 0
	for i := range m1 {
		if !reflect.DeepEqual(m1[i], m2[i]) {
			return pbt.Fail("combinator %d changes through print+parse:\n before %s\n after  %s\n printed as: %s", i, modelJSON(m1[i]), modelJSON(m2[i]), p1.Combinators()[i].String())
		}
		a, b := p1.Combinators()[i], p2.Combinators()[i]
		if a.Crc32() != b.Crc32() {
			return pbt.Fail("combinator %s: tag %08x becomes %08x through print+parse (printed as: %s)", m1[i].Name, a.Crc32(), b.Crc32(), a.String())
		}
		if a.IsFunction != b.IsFunction {
			return pbt.Fail("combinator %s moves between the types and functions sections", m1[i].Name)
		}
		if isRich(m1[i]) {
			rich++
		}
	}
	if again := p2.String(); again != printed {
		return pbt.Fail("printing is not stable: second print differs from the first:\n%s", firstDiffLine(printed, again))
	}
	// when the model is known (generated schema) the parse must also agree with what was generated
	if c.Schema != nil && c.Text == "" {
		user := m1[len(m1)-len(c.Schema.Combs):]
		for i, g := range c.Schema.Combs {
			if user[i].Name != g.Name || p1.Combinators()[len(m1)-len(c.Schema.Combs)+i].Crc32() != g.EffectiveTag() {
				return pbt.Fail("combinator %s: parser computes tag %08x, reference canonical form %q gives %08x", g.Name, p1.Combinators()[len(m1)-len(c.Schema.Combs)+i].Crc32(), g.Canonical(), g.EffectiveTag())
			}
		}
	}
	cls := []string{}
	if c.File != "" {
		cls = append(cls, "repository-file")
	}
	return pbt.Result{NonTrivial: rich > 0, Classes: cls}
}

func isRich(m *schemagen.Comb) bool {
	if m.Tag != nil || len(m.Params) > 0 {
		return true
	}
	for _, f := range m.Fields {
		if f.Mask != nil || f.Type.Kind == "brackets" || len(f.Type.Args) > 0 {
			return true
		}
	}
	return false
}

func excerpt(text string, err error) string {
	lines := strings.Split(text, "\n")
	if len(lines) > 12 {
		lines = lines[len(lines)-12:]
	}
	return strings.Join(lines, "\n")
}

func firstDiffLine(a, b string) string {
	la, lb := strings.Split(a, "\n"), strings.Split(b, "\n")
	for i := 0; i < len(la) && i < len(lb); i++ {
		if la[i] != lb[i] {
			return fmt.Sprintf("line %d: %q vs %q", i+1, la[i], lb[i])
		}
	}
	return fmt.Sprintf("%d vs %d lines", len(la), len(lb))
}

func TestC21Generated(t *testing.T) {
	pbt.Run(t, "tl1-print-parse", pbt.Scale(3000, 200000), genSchemaCase, checkC21)
}

func repoFiles() []string {
	var files []string
	filepath.Walk("/repo", func(p string, info os.FileInfo, err error) error {
		if err == nil && !info.IsDir() && filepath.Ext(p) == ".tl" {
			files = append(files, p)
		}
		return nil
	})
	return files
}

func TestC21Repository(t *testing.T) {
	pbt.Enumerate(t, "tl1-print-parse-repository", func(yield func(schemaCase) bool) {
		for _, f := range repoFiles() {
			b, err := os.ReadFile(f)
			if err != nil || len(b) > 200000 {
				continue
			}
			if !yield(schemaCase{Text: string(b), File: f}) {
				return
			}
		}
	}, checkC21)
}

// ---- C23 ---------------------------------------------------------------------------------------------

type tagCase struct {
	Comb    *schemagen.Comb `json:"comb"`
	Layouts []uint64        `json:"layout_seeds"`
}

func checkC23(c tagCase) pbt.Result {
	want := c.Comb.EffectiveTag()
	section := ""
	if c.Comb.IsFunc {
		section = "---functions---\n"
	}
	texts := []string{c.Comb.PlainLine()}
	for _, s := range c.Layouts {
		texts = append(texts, c.Comb.Line(schemagen.Layout{Seed: s, Level: 1}))
	}
	for i, line := range texts {
		tl, err := tlast.ParseTLFile(section+line, "c.tl", tlast.LexerOptions{LexerLanguage: tlast.TL1})
		if err != nil {
			return pbt.Fail("harness: spelling %d of the combinator does not parse: %v\n%s", i, err, line)
		}
		cs := tl.Combinators()
		if len(cs) != 1 {
			return pbt.Fail("harness: %d combinators parsed from one", len(cs))
		}
		if got := cs[0].Crc32(); got != want {
			kind := "implicit tag"
			if c.Comb.Tag != nil {
				kind = "explicit tag"
			}
			return pbt.Fail("%s of spelling %d is %08x, expected %08x = CRC32 of canonical form %q; spelling: %s", kind, i, got, want, c.Comb.Canonical(), line)
		}
		if c.Comb.Tag == nil {
			if g := cs[0].GenCrc32(); g != crc32.ChecksumIEEE([]byte(c.Comb.Canonical())) {
				return pbt.Fail("GenCrc32 %08x differs from the CRC32 of the canonical form %q", g, c.Comb.Canonical())
			}
		}
	}
	canon := c.Comb.Canonical()
	nt := strings.ContainsAny(canon, "[%") || len(c.Comb.Params) > 0 || hasArith(c.Comb)
	cls := []string{}
	if c.Comb.Tag != nil {
		cls = append(cls, "explicit-tag")
	}
	if hasArith(c.Comb) {
		cls = append(cls, "arithmetic")
	}
	return pbt.Result{NonTrivial: nt, Classes: cls}
}

func hasArith(c *schemagen.Comb) bool {
	b, _ := json.Marshal(c)
	return strings.Contains(string(b), `"sum"`)
}

func TestC23Tags(t *testing.T) {
	pbt.Run(t, "implicit-tags", pbt.Scale(6000, 300000), func(rt *rapid.T) tagCase {
		o := schemagen.DefaultOpts()
		o.MinCombs, o.MaxCombs = 3, 10
		o.EmptyElems = true
		s := schemagen.Generate(rt, o)
		c := s.Combs[rapid.IntRange(0, len(s.Combs)-1).Draw(rt, "which")]
		return tagCase{Comb: c, Layouts: rapid.SliceOfN(rapid.Uint64(), 3, 6).Draw(rt, "layouts")}
	}, checkC23)
}
