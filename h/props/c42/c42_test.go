package c42

import (
	"context"
	"fmt"
	"runtime"
	"sync"
	"sync/atomic"
	"testing"
	"time"

	"github.com/VKCOM/tl/internal/vkgo/pkg/semaphore"
	"github.com/VKCOM/tl/verifh/pbt"
	"pgregory.net/rapid"
)

// ---------------- (1) sequential model-based histories with pending waiters ---------------

type op struct {
	Op string `json:"op"` // acquire acquire_cancelled try release force setsize cancel
	N  int64  `json:"n"`  // weight / new size / waiter index (cancel)
}

type history struct {
	Size int64 `json:"size"`
	Ops  []op  `json:"ops"`
}

type mwaiter struct {
	n      int64
	id     int
	cancel context.CancelFunc
	done   chan error
}

// Admission is synchronous inside Release/SetSize/cancel (the ready channel is closed under the lock), so an
// admitted waiter only needs to be scheduled; 30 s without returning is a lost wake-up, not a slow machine.
// Once a first failure has been seen in this process (i.e. while rapid shrinks it) the bound drops to 3 s so that
// shrinking makes progress; the first failure is always established with the full bound.
var lostWakeupTimeout = 30 * time.Second

func sawFailure() { lostWakeupTimeout = 3 * time.Second }

func waitDone(ch chan error, d time.Duration) (error, bool) {
	select {
	case err := <-ch:
		return err, true
	case <-time.After(d):
		return nil, false
	}
}

func runHistory(h history) pbt.Result {
	s := semaphore.NewWeighted(h.Size)
	size, cur := h.Size, int64(0)
	var queue []*mwaiter
	nextID := 0
	admittedWhilePending, cancelledFront, resized := false, false, false
	defer func() {
		for _, w := range queue {
			w.cancel()
		}
		for _, w := range queue {
			waitDone(w.done, 5*time.Second)
		}
	}()
	// model admission: FIFO, stop at the first waiter that does not fit
	admit := func(where string) *pbt.Result {
		for len(queue) > 0 && size-cur >= queue[0].n {
			w := queue[0]
			queue = queue[1:]
			cur += w.n
			err, ok := waitDone(w.done, lostWakeupTimeout)
			if !ok {
				r := pbt.Fail("%s: lost wake-up: waiter #%d (weight %d) fits (size %d, held %d before it) and is first in line but its Acquire did not return within %v", where, w.id, w.n, size, cur-w.n, lostWakeupTimeout)
				return &r
			}
			if err != nil {
				r := pbt.Fail("%s: waiter #%d admitted by the model returned %v", where, w.id, err)
				return &r
			}
			admittedWhilePending = true
		}
		return nil
	}
	for step, o := range h.Ops {
		where := fmt.Sprintf("step %d %s(%d) [model size=%d held=%d queue=%d]", step, o.Op, o.N, size, cur, len(queue))
		switch o.Op {
		case "acquire", "acquire_cancelled":
			fits := size-cur >= o.N && len(queue) == 0
			doomed := !fits && o.N > size
			ctx, cancel := context.WithCancel(context.Background())
			done := make(chan error, 1)
			pre := o.Op == "acquire_cancelled"
			if pre {
				cancel()
			}
			go func() { done <- s.Acquire(ctx, o.N) }()
			switch {
			case fits:
				err, ok := waitDone(done, lostWakeupTimeout)
				cancel()
				if !ok {
					return pbt.Fail("%s: Acquire blocks although the weight fits and nobody waits", where)
				}
				if err != nil {
					return pbt.Fail("%s: Acquire failed with %v although the weight fits and nobody waits", where, err)
				}
				cur += o.N
			case doomed:
				// never queued; returns only with the context error
				if !pre {
					time.Sleep(200 * time.Microsecond)
					cancel()
				}
				err, ok := waitDone(done, lostWakeupTimeout)
				if !ok {
					return pbt.Fail("%s: Acquire of a weight above the size did not return after cancellation", where)
				}
				if err == nil {
					return pbt.Fail("%s: Acquire(%d) succeeded with size %d", where, o.N, size)
				}
			case pre:
				// queued and immediately cancelled: must return the context error and leave the state unchanged
				err, ok := waitDone(done, lostWakeupTimeout)
				if !ok {
					return pbt.Fail("%s: Acquire with a cancelled context did not return", where)
				}
				if err == nil {
					return pbt.Fail("%s: Acquire succeeded although weight does not fit (over-admission)", where)
				}
			default:
				w := &mwaiter{n: o.N, id: nextID, cancel: cancel, done: done}
				nextID++
				queue = append(queue, w)
				// wait until it is really queued, so that the next operation is ordered after it
				deadline := time.Now().Add(lostWakeupTimeout)
				for len(semaphore.VerifWaiters(s)) != len(queue) {
					select {
					case err := <-done:
						return pbt.Fail("%s: Acquire returned %v although the model says it must wait (over-admission)", where, err)
					default:
					}
					if time.Now().After(deadline) {
						return pbt.Fail("%s: Acquire neither returned nor queued", where)
					}
					runtime.Gosched()
				}
			}
		case "try":
			want := size-cur >= o.N && len(queue) == 0
			if got := s.TryAcquire(o.N); got != want {
				return pbt.Fail("%s: TryAcquire=%v, model %v", where, got, want)
			}
			if want {
				cur += o.N
			}
		case "release":
			if o.N > cur {
				continue // releasing more than held panics by contract
			}
			s.Release(o.N)
			cur -= o.N
			if r := admit(where); r != nil {
				return *r
			}
		case "force":
			s.ForceAcquire(o.N)
			cur += o.N
		case "setsize":
			s.SetSize(o.N)
			if o.N != size {
				resized = true
			}
			size = o.N
			if r := admit(where); r != nil {
				return *r
			}
		case "race":
			// the front waiter's context is cancelled at the same moment a Release makes room for it: it may return
			// either way, but the semaphore must end in the state that corresponds to what it returned, and whoever
			// fits behind it must be woken
			if len(queue) == 0 || cur == 0 {
				continue
			}
			w := queue[0]
			need := w.n - (size - cur)
			if need <= 0 || need > cur {
				continue
			}
			start := make(chan struct{})
			var wg sync.WaitGroup
			wg.Add(2)
			go func() { defer wg.Done(); <-start; w.cancel() }()
			go func() { defer wg.Done(); <-start; s.Release(need) }()
			close(start)
			wg.Wait()
			cur -= need
			err, ok := waitDone(w.done, lostWakeupTimeout)
			if !ok {
				return pbt.Fail("%s: the front waiter #%d, cancelled while a Release made room for it, did not return", where, w.id)
			}
			if err == nil {
				cur += w.n
			}
			queue = queue[1:]
			cancelledFront = true
			if r := admit(where); r != nil {
				return *r
			}
		case "cancel":
			if len(queue) == 0 {
				continue
			}
			i := int(o.N) % len(queue)
			w := queue[i]
			w.cancel()
			err, ok := waitDone(w.done, lostWakeupTimeout)
			if !ok {
				return pbt.Fail("%s: cancelled waiter #%d did not return", where, w.id)
			}
			if err == nil {
				return pbt.Fail("%s: cancelled waiter #%d (weight %d) acquired although it does not fit (over-admission)", where, w.id, w.n)
			}
			queue = append(queue[:i:i], queue[i+1:]...)
			if i == 0 {
				cancelledFront = true
				if r := admit(where); r != nil {
					return *r
				}
			}
		}
		// exact state agreement; nobody else may have been released from the queue
		gc, gs := s.Observe()
		if gc != cur || gs != size {
			return pbt.Fail("%s: Observe()=(held %d,size %d), model (held %d,size %d)", where, gc, gs, cur, size)
		}
		ws := semaphore.VerifWaiters(s)
		if len(ws) != len(queue) {
			return pbt.Fail("%s: %d waiters queued, model %d", where, len(ws), len(queue))
		}
		for i, w := range queue {
			if ws[i] != w.n {
				return pbt.Fail("%s: waiter %d has weight %d, model %d (FIFO order broken)", where, i, ws[i], w.n)
			}
			select {
			case err := <-w.done:
				return pbt.Fail("%s: waiter #%d returned %v although the model keeps it waiting", where, w.id, err)
			default:
			}
		}
	}
	cls := []string{}
	if admittedWhilePending {
		cls = append(cls, "waiter-admitted")
	}
	if cancelledFront {
		cls = append(cls, "front-cancelled")
	}
	if resized {
		cls = append(cls, "resized")
	}
	return pbt.Result{NonTrivial: admittedWhilePending, Classes: cls}
}

func genHistory(rt *rapid.T) history {
	h := history{Size: rapid.Int64Range(0, 6).Draw(rt, "size")}
	n := rapid.IntRange(1, 30).Draw(rt, "n")
	for i := 0; i < n; i++ {
		o := op{Op: rapid.SampledFrom([]string{"acquire", "acquire", "acquire", "acquire", "acquire_cancelled", "try", "release", "release", "release", "force", "setsize", "cancel", "race", "race"}).Draw(rt, "op")}
		switch o.Op {
		case "setsize":
			o.N = rapid.Int64Range(0, 8).Draw(rt, "size")
		case "cancel":
			o.N = rapid.Int64Range(0, 5).Draw(rt, "i")
		default:
			o.N = rapid.Int64Range(0, 4).Draw(rt, "w")
		}
		h.Ops = append(h.Ops, o)
	}
	return h
}

func runHistoryShrinkAware(h history) pbt.Result {
	r := runHistory(h)
	if r.Err != nil {
		sawFailure()
	}
	return r
}

func TestC42Sequential(t *testing.T) {
	pbt.Run(t, "semaphore-history", pbt.Scale(3000, 300000), genHistory, runHistoryShrinkAware)
}

// exhaustive short histories over a small alphabet
var alphabet = []op{
	{"acquire", 0}, {"acquire", 1}, {"acquire", 2}, {"acquire", 3},
	{"try", 1}, {"try", 2}, {"release", 1}, {"release", 2}, {"force", 1},
	{"setsize", 0}, {"setsize", 1}, {"setsize", 2}, {"setsize", 3}, {"setsize", 4},
	{"cancel", 0}, {"cancel", 1},
}

func TestC42Exhaustive(t *testing.T) {
	maxLen := 3
	if pbt.Thorough() {
		maxLen = 5
	}
	pbt.Enumerate(t, fmt.Sprintf("semaphore-history-exhaustive-len<=%d", maxLen), func(yield func(history) bool) {
		for _, size := range []int64{2, 3} {
			var rec func(prefix []op) bool
			rec = func(prefix []op) bool {
				if len(prefix) > 0 {
					if !yield(history{Size: size, Ops: append([]op{}, prefix...)}) {
						return false
					}
				}
				if len(prefix) == maxLen {
					return true
				}
				for _, o := range alphabet {
					if !rec(append(prefix, o)) {
						return false
					}
				}
				return true
			}
			if !rec(nil) {
				return
			}
		}
	}, runHistory)
}

// ---------------- (2) concurrent mixes (race detector on) -----------------------------

type mix struct {
	Size     int64   `json:"size"`
	Forced   int64   `json:"forced"`
	Workers  int     `json:"workers"`
	Rounds   int     `json:"rounds"`
	Weights  []int64 `json:"weights"`
	Resize   bool    `json:"resize"`
	TryShare int     `json:"try_share"` // percent of TryAcquire instead of Acquire
	Procs    int     `json:"procs"`
}

func genMix(rt *rapid.T) mix {
	m := mix{
		Size:     rapid.Int64Range(1, 6).Draw(rt, "size"),
		Workers:  rapid.IntRange(2, 12).Draw(rt, "workers"),
		Rounds:   rapid.IntRange(5, 60).Draw(rt, "rounds"),
		Resize:   rapid.Bool().Draw(rt, "resize"),
		TryShare: rapid.SampledFrom([]int{0, 20, 50}).Draw(rt, "try"),
		Procs:    rapid.SampledFrom([]int{1, 2, 4, 16}).Draw(rt, "procs"),
	}
	m.Forced = rapid.Int64Range(0, m.Size-1).Draw(rt, "forced")
	for i := 0; i < m.Workers; i++ {
		m.Weights = append(m.Weights, rapid.Int64Range(0, m.Size-m.Forced).Draw(rt, "w"))
	}
	return m
}

func runMix(m mix) pbt.Result {
	old := runtime.GOMAXPROCS(m.Procs)
	defer runtime.GOMAXPROCS(old)
	s := semaphore.NewWeighted(m.Size)
	s.ForceAcquire(m.Forced)
	var held, maxSize atomic.Int64
	maxSize.Store(m.Size)
	var violation atomic.Value
	var wg sync.WaitGroup
	stop := make(chan struct{})
	if m.Resize {
		wg.Add(1)
		go func() {
			defer wg.Done()
			for i := 0; ; i++ {
				select {
				case <-stop:
					s.SetSize(m.Size)
					return
				default:
				}
				if i%2 == 0 {
					maxSize.Store(m.Size + 2) // raise the bound before the size
					s.SetSize(m.Size + 2)
				} else {
					s.SetSize(m.Size)
					// weight admitted under the larger size may still be held; the bound is lowered only when safe
				}
				runtime.Gosched()
			}
		}()
	}
	var wwg sync.WaitGroup
	blockedTotal := atomic.Int64{}
	for wi := 0; wi < m.Workers; wi++ {
		wwg.Add(1)
		go func(wi int) {
			defer wwg.Done()
			n := m.Weights[wi]
			for r := 0; r < m.Rounds; r++ {
				useTry := (wi*31+r*17)%100 < m.TryShare
				if useTry {
					if !s.TryAcquire(n) {
						runtime.Gosched()
						continue
					}
				} else {
					if c, _ := s.Observe(); c+n > m.Size {
						blockedTotal.Add(1)
					}
					if err := s.Acquire(context.Background(), n); err != nil {
						violation.Store(fmt.Sprintf("Acquire(%d) with a live context returned %v", n, err))
						return
					}
				}
				h := held.Add(n)
				if lim := maxSize.Load() - m.Forced; h > lim {
					violation.Store(fmt.Sprintf("over-admission: non-forced weight held %d exceeds size %d - forced %d", h, maxSize.Load(), m.Forced))
				}
				if r%3 == 0 {
					runtime.Gosched()
				}
				held.Add(-n)
				s.Release(n)
			}
		}(wi)
	}
	finished := make(chan struct{})
	go func() { wwg.Wait(); close(finished) }()
	select {
	case <-finished:
	case <-time.After(lostWakeupTimeout):
		// distinguish a lost wake-up (head waiter fits and nothing moves) from a slow machine
		c1, sz := s.Observe()
		ws := semaphore.VerifWaiters(s)
		time.Sleep(2 * time.Second)
		c2, _ := s.Observe()
		ws2 := semaphore.VerifWaiters(s)
		close(stop)
		if len(ws) > 0 && len(ws2) == len(ws) && c1 == c2 && sz-c1 >= ws[0] && held.Load() == 0 {
			return pbt.Fail("lost wake-up: head waiter of weight %d fits (size %d, held %d), nobody holds weight, yet nothing progresses", ws[0], sz, c1)
		}
		pbt.Inconclusive("concurrent mix did not finish in time and no lost wake-up could be shown")
	}
	close(stop)
	wg.Wait()
	if v := violation.Load(); v != nil {
		return pbt.Fail("%s", v.(string))
	}
	if c, sz := s.Observe(); c != m.Forced || sz != m.Size {
		return pbt.Fail("after all releases Observe()=(held %d,size %d), expected (held %d,size %d)", c, sz, m.Forced, m.Size)
	}
	if ws := semaphore.VerifWaiters(s); len(ws) != 0 {
		return pbt.Fail("waiters left in the queue after completion: %v", ws)
	}
	cls := []string{}
	if blockedTotal.Load() > 0 {
		cls = append(cls, "contended")
	}
	return pbt.Result{NonTrivial: blockedTotal.Load() > 0, Classes: cls}
}

func TestC42Concurrent(t *testing.T) {
	pbt.Run(t, "semaphore-concurrent-mix", pbt.Scale(300, 20000), genMix, runMix)
}
