package c33

import (
	"bytes"
	"encoding/binary"
	"errors"
	"fmt"
	"io"
	"testing"

	"github.com/VKCOM/tl/pkg/basictl"
	"github.com/VKCOM/tl/verifh/pbt"
	"pgregory.net/rapid"
)

// ---- reference layout (from the documents, no code shared with basictl) ----

func refString(content []byte) []byte {
	l := len(content)
	var out []byte
	switch {
	case l <= 253:
		out = append(out, byte(l))
	case l < 1<<24:
		out = append(out, 254, byte(l), byte(l>>8), byte(l>>16))
	default:
		out = append(out, 255, byte(l), byte(l>>8), byte(l>>16), byte(l>>24), byte(l>>32), byte(l>>40), byte(l>>48))
	}
	out = append(out, content...)
	for len(out)%4 != 0 {
		out = append(out, 0)
	}
	return out
}

func refTL2Size(n uint64) []byte {
	switch {
	case n < 254:
		return []byte{byte(n)}
	case n < 254+65536:
		return []byte{254, byte(n - 254), byte((n - 254) >> 8)}
	default:
		b := []byte{255, 0, 0, 0, 0, 0, 0, 0, 0}
		binary.LittleEndian.PutUint64(b[1:], n)
		return b
	}
}

func pattern(l int, salt int) []byte {
	b := make([]byte, l)
	x := uint32(l*2654435761) + uint32(salt)*40503
	for i := range b {
		x = x*1664525 + 1013904223
		b[i] = byte(x >> 24)
	}
	return b
}

var junk = []byte{0xde, 0xad, 0xbe, 0xef, 0x01}

// checkStringRoundTrip: layout, read-back, exact remainder, both variants.
func checkStringRoundTrip(content []byte) error {
	want := refString(content)
	got := basictl.StringWrite([]byte{0x77}, string(content))
	if !bytes.Equal(got[1:], want) || got[0] != 0x77 {
		return fmt.Errorf("StringWrite(len %d): layout differs from reference: got %x.. want %x..", len(content), head(got[1:]), head(want))
	}
	gotB := basictl.StringWriteBytes(nil, content)
	if !bytes.Equal(gotB, want) {
		return fmt.Errorf("StringWriteBytes(len %d): layout differs from reference", len(content))
	}
	in := append(append([]byte{}, want...), junk...)
	var s string
	rest, err := basictl.StringRead(in, &s)
	if err != nil {
		return fmt.Errorf("StringRead(len %d): %v", len(content), err)
	}
	if s != string(content) || !bytes.Equal(rest, junk) {
		return fmt.Errorf("StringRead(len %d): value or remainder wrong (rest %d bytes)", len(content), len(rest))
	}
	dst := []byte("previous content that must disappear")
	rest, err = basictl.StringReadBytes(in, &dst)
	if err != nil {
		return fmt.Errorf("StringReadBytes(len %d): %v", len(content), err)
	}
	if !bytes.Equal(dst, content) || !bytes.Equal(rest, junk) {
		return fmt.Errorf("StringReadBytes(len %d): value or remainder wrong", len(content))
	}
	return nil
}

func head(b []byte) []byte {
	if len(b) > 12 {
		return b[:12]
	}
	return b
}

func readBoth(in []byte) (error, error) {
	var s string
	_, e1 := basictl.StringRead(in, &s)
	var d []byte
	_, e2 := basictl.StringReadBytes(in, &d)
	return e1, e2
}

type lenCase struct {
	Len  int `json:"len"`
	Salt int `json:"salt"`
}

func TestC33StringAllLengths(t *testing.T) {
	pbt.Enumerate(t, "string-layout-all-lengths", func(yield func(lenCase) bool) {
		for l := 0; l <= 70000; l++ {
			if !yield(lenCase{l, 0}) {
				return
			}
		}
		for _, l := range []int{1<<24 - 2, 1<<24 - 1, 1 << 24, 1<<24 + 1, 1<<24 + 2, 1<<24 + 3} {
			if !yield(lenCase{l, 1}) {
				return
			}
		}
	}, func(c lenCase) pbt.Result {
		if err := checkStringRoundTrip(pattern(c.Len, c.Salt)); err != nil {
			return pbt.Result{Err: err}
		}
		return pbt.Result{NonTrivial: c.Len >= 2, Classes: []string{lenClass(c.Len)}}
	})
}

func lenClass(l int) string {
	switch {
	case l <= 253:
		return "tiny-form"
	case l < 1<<24:
		return "medium-form"
	}
	return "huge-form"
}

type truncCase struct {
	Len int `json:"len"`
	Cut int `json:"cut"`
}

func TestC33StringTruncations(t *testing.T) {
	pbt.Enumerate(t, "string-truncation", func(yield func(truncCase) bool) {
		for l := 0; l <= 600; l++ {
			full := len(refString(make([]byte, l)))
			for cut := 0; cut < full; cut++ {
				if !yield(truncCase{l, cut}) {
					return
				}
			}
		}
		for _, l := range []int{65535, 70000, 1<<24 - 1, 1 << 24, 1<<24 + 1} {
			full := len(refString(make([]byte, l)))
			for _, cut := range []int{0, 1, 2, 3, 4, 5, 7, 8, 9, l / 2, full - 5, full - 4, full - 3, full - 2, full - 1} {
				if !yield(truncCase{l, cut}) {
					return
				}
			}
		}
	}, func(c truncCase) pbt.Result {
		enc := refString(pattern(c.Len, 2))
		// padding bytes of the pattern are zero by construction of refString
		in := enc[:c.Cut]
		e1, e2 := readBoth(in)
		if !errors.Is(e1, io.ErrUnexpectedEOF) {
			return pbt.Fail("StringRead on %d of %d bytes (len %d): want io.ErrUnexpectedEOF, got %v", c.Cut, len(enc), c.Len, e1)
		}
		if !errors.Is(e2, io.ErrUnexpectedEOF) {
			return pbt.Fail("StringReadBytes on %d of %d bytes (len %d): want io.ErrUnexpectedEOF, got %v", c.Cut, len(enc), c.Len, e2)
		}
		return pbt.Result{NonTrivial: c.Cut >= 1, Classes: []string{lenClass(c.Len)}}
	})
}

type nonMinCase struct {
	Len  int    `json:"len"`
	Form string `json:"form"` // medium | huge
}

func encodeForm(content []byte, form string) []byte {
	l := len(content)
	var out []byte
	if form == "medium" {
		out = append(out, 254, byte(l), byte(l>>8), byte(l>>16))
	} else {
		out = append(out, 255, byte(l), byte(l>>8), byte(l>>16), byte(l>>24), byte(l>>32), byte(l>>40), byte(l>>48))
	}
	out = append(out, content...)
	for len(out)%4 != 0 {
		out = append(out, 0)
	}
	return append(out, 0, 0, 0, 0, 0, 0, 0, 0) // generous tail so that only the form can be the reason for rejection
}

func TestC33StringNonMinimalForms(t *testing.T) {
	pbt.Enumerate(t, "string-non-minimal-form", func(yield func(nonMinCase) bool) {
		for l := 0; l <= 253; l++ {
			if !yield(nonMinCase{l, "medium"}) || !yield(nonMinCase{l, "huge"}) {
				return
			}
		}
		for l := 254; l <= 70000; l += 1 + l/40 {
			if !yield(nonMinCase{l, "huge"}) {
				return
			}
		}
		for _, l := range []int{1<<24 - 2, 1<<24 - 1} {
			if !yield(nonMinCase{l, "huge"}) {
				return
			}
		}
	}, func(c nonMinCase) pbt.Result {
		in := encodeForm(pattern(c.Len, 3), c.Form)
		e1, e2 := readBoth(in)
		if e1 == nil || e2 == nil {
			return pbt.Fail("non-minimal %s form for length %d accepted (string: %v, bytes: %v)", c.Form, c.Len, e1, e2)
		}
		return pbt.Result{NonTrivial: true, Classes: []string{"nonminimal-" + c.Form}}
	})
}

type padCase struct {
	Len int  `json:"len"`
	Pos int  `json:"pos"` // index of the padding byte (0-based among padding bytes)
	Val byte `json:"val"`
}

func TestC33StringPadding(t *testing.T) {
	lens := []int{}
	for l := 0; l <= 600; l++ {
		lens = append(lens, l)
	}
	lens = append(lens, 65534, 65535, 65536, 65537, 1<<24-1, 1<<24, 1<<24+1, 1<<24+2)
	pbt.Enumerate(t, "string-nonzero-padding", func(yield func(padCase) bool) {
		for _, l := range lens {
			enc := len(refString(make([]byte, l)))
			hdr := 1
			if l > 253 {
				hdr = 4
			}
			if l >= 1<<24 {
				hdr = 8
			}
			npad := enc - hdr - l
			for p := 0; p < npad; p++ {
				for _, v := range []byte{1, 0x80, 0xff} {
					if !yield(padCase{l, p, v}) {
						return
					}
				}
			}
		}
	}, func(c padCase) pbt.Result {
		enc := refString(pattern(c.Len, 4))
		hdr := len(enc) - c.Len
		_ = hdr
		npadStart := 0
		switch {
		case c.Len <= 253:
			npadStart = 1 + c.Len
		case c.Len < 1<<24:
			npadStart = 4 + c.Len
		default:
			npadStart = 8 + c.Len
		}
		enc[npadStart+c.Pos] = c.Val
		in := append(enc, junk...)
		e1, e2 := readBoth(in)
		if e1 == nil || e2 == nil {
			return pbt.Fail("non-zero padding byte %#x at pad index %d for length %d accepted (string: %v, bytes: %v)", c.Val, c.Pos, c.Len, e1, e2)
		}
		return pbt.Result{NonTrivial: true, Classes: []string{lenClass(c.Len)}}
	})
}

func TestC33HugeLengthOverflow(t *testing.T) {
	// declared huge lengths far beyond the input: must be an error, never a panic / allocation
	type c struct {
		L uint64 `json:"l"`
	}
	pbt.Enumerate(t, "string-huge-declared-length", func(yield func(c) bool) {
		for _, l := range []uint64{1 << 24, 1<<24 + 1, 1 << 31, 1<<32 - 1, 1 << 32, 1<<55 + 3, 1<<56 - 1} {
			if !yield(c{l}) {
				return
			}
		}
	}, func(k c) pbt.Result {
		in := []byte{255, byte(k.L), byte(k.L >> 8), byte(k.L >> 16), byte(k.L >> 24), byte(k.L >> 32), byte(k.L >> 40), byte(k.L >> 48), 1, 2, 3, 4}
		e1, e2 := readBoth(in)
		if !errors.Is(e1, io.ErrUnexpectedEOF) || !errors.Is(e2, io.ErrUnexpectedEOF) {
			return pbt.Fail("huge declared length %d over 4 payload bytes: want io.ErrUnexpectedEOF, got %v / %v", k.L, e1, e2)
		}
		return pbt.Result{NonTrivial: true}
	})
}

// ---- random contents --------------------------------------------------------

type contentCase struct {
	Content pbt.HexBytes `json:"content"`
}

func TestC33StringRandomContent(t *testing.T) {
	pbt.Run(t, "string-random-content", pbt.Scale(20000, 1000000), func(rt *rapid.T) contentCase {
		n := rapid.OneOf(rapid.IntRange(0, 12), rapid.IntRange(250, 260), rapid.IntRange(0, 2000), rapid.IntRange(65500, 66000)).Draw(rt, "n")
		if rapid.Bool().Draw(rt, "raw") {
			return contentCase{rapid.SliceOfN(rapid.Byte(), n, n).Draw(rt, "bytes")}
		}
		return contentCase{pattern(n, rapid.IntRange(0, 1<<20).Draw(rt, "salt"))}
	}, func(c contentCase) pbt.Result {
		if err := checkStringRoundTrip(c.Content); err != nil {
			return pbt.Result{Err: err}
		}
		// TL2 string: size + bytes, no padding
		want := append(refTL2Size(uint64(len(c.Content))), c.Content...)
		got := basictl.StringWriteTL2(nil, string(c.Content))
		gotB := basictl.StringWriteTL2Bytes(nil, c.Content)
		if !bytes.Equal(got, want) || !bytes.Equal(gotB, want) {
			return pbt.Fail("StringWriteTL2(len %d) differs from reference", len(c.Content))
		}
		in := append(append([]byte{}, want...), junk...)
		var s string
		rest, err := basictl.StringReadTL2(in, &s)
		if err != nil || s != string(c.Content) || !bytes.Equal(rest, junk) {
			return pbt.Fail("StringReadTL2(len %d): err %v / wrong value or remainder", len(c.Content), err)
		}
		d := []byte("zzzzzzzz")
		rest, err = basictl.StringReadTL2Bytes(in, &d)
		if err != nil || !bytes.Equal(d, c.Content) || !bytes.Equal(rest, junk) {
			return pbt.Fail("StringReadTL2Bytes(len %d): err %v / wrong value or remainder", len(c.Content), err)
		}
		if len(want) > 1 {
			cut := int(pbt.Hash(c.Content) % uint64(len(want)))
			if _, err := basictl.StringReadTL2(want[:cut], &s); !errors.Is(err, io.ErrUnexpectedEOF) {
				return pbt.Fail("StringReadTL2 truncated to %d of %d: want io.ErrUnexpectedEOF, got %v", cut, len(want), err)
			}
			if _, err := basictl.StringReadTL2Bytes(want[:cut], &d); !errors.Is(err, io.ErrUnexpectedEOF) {
				return pbt.Fail("StringReadTL2Bytes truncated to %d of %d: want io.ErrUnexpectedEOF, got %v", cut, len(want), err)
			}
		}
		return pbt.Result{NonTrivial: len(c.Content) >= 2, Classes: []string{lenClass(len(c.Content))}}
	})
}

// ---- TL2 sizes ---------------------------------------------------------------

type sizeCase struct {
	N uint64 `json:"n"`
}

func TestC33TL2Sizes(t *testing.T) {
	pbt.Enumerate(t, "tl2-size", func(yield func(sizeCase) bool) {
		for n := uint64(0); n <= 70000; n++ {
			if !yield(sizeCase{n}) {
				return
			}
		}
		for _, n := range []uint64{65536 + 251, 65536 + 252, 65536 + 253, 65536 + 254, 65536 + 255, 1<<32 - 1, 1 << 32, 1<<32 + 1, 1<<62 + 12345, 1<<63 - 1} {
			if !yield(sizeCase{n}) {
				return
			}
		}
	}, func(c sizeCase) pbt.Result {
		n := int(c.N)
		want := refTL2Size(c.N)
		got := basictl.TL2WriteSize([]byte{9}, n)
		if !bytes.Equal(got[1:], want) || got[0] != 9 {
			return pbt.Fail("TL2WriteSize(%d) = %x, reference %x", n, got[1:], want)
		}
		if cs := basictl.TL2CalculateSize(n); cs != len(want) {
			return pbt.Fail("TL2CalculateSize(%d) = %d, reference %d", n, cs, len(want))
		}
		buf := make([]byte, 9)
		k := basictl.TL2PutSize(buf, n)
		if k != len(want) || !bytes.Equal(buf[:k], want) {
			return pbt.Fail("TL2PutSize(%d) = %x, reference %x", n, buf[:k], want)
		}
		in := append(append([]byte{}, want...), junk...)
		rest, v, err := basictl.TL2ParseSize(in)
		if err != nil || v != n || !bytes.Equal(rest, junk) {
			return pbt.Fail("TL2ParseSize(%x): got %d err %v rest %x", want, v, err, rest)
		}
		var v2 int
		rest, err = basictl.TL2ReadSize(in, &v2)
		if err != nil || v2 != n || !bytes.Equal(rest, junk) {
			return pbt.Fail("TL2ReadSize(%x): got %d err %v", want, v2, err)
		}
		// the huge form is admissible for every value
		huge := []byte{255, 0, 0, 0, 0, 0, 0, 0, 0}
		binary.LittleEndian.PutUint64(huge[1:], c.N)
		rest, v, err = basictl.TL2ParseSize(append(huge, junk...))
		if err != nil || v != n || !bytes.Equal(rest, junk) {
			return pbt.Fail("TL2ParseSize(huge form of %d): got %d err %v", n, v, err)
		}
		for cut := 0; cut < len(want); cut++ {
			if _, _, err := basictl.TL2ParseSize(want[:cut]); !errors.Is(err, io.ErrUnexpectedEOF) {
				return pbt.Fail("TL2ParseSize truncated %x to %d bytes: want io.ErrUnexpectedEOF, got %v", want, cut, err)
			}
		}
		for cut := 0; cut < 9; cut++ {
			if _, _, err := basictl.TL2ParseSize(huge[:cut]); !errors.Is(err, io.ErrUnexpectedEOF) {
				return pbt.Fail("TL2ParseSize truncated huge form to %d bytes: want io.ErrUnexpectedEOF, got %v", cut, err)
			}
		}
		return pbt.Result{NonTrivial: c.N >= 254, Classes: []string{fmt.Sprintf("size-form-%d", len(want))}}
	})
}

func TestC33TL2SizeTooLarge(t *testing.T) {
	type c struct {
		N uint64 `json:"n"`
	}
	pbt.Enumerate(t, "tl2-size-above-maxint", func(yield func(c) bool) {
		for _, n := range []uint64{1 << 63, 1<<63 + 1, 1<<64 - 1} {
			if !yield(c{n}) {
				return
			}
		}
	}, func(k c) pbt.Result {
		huge := []byte{255, 0, 0, 0, 0, 0, 0, 0, 0, 1, 2, 3}
		binary.LittleEndian.PutUint64(huge[1:], k.N)
		_, v, err := basictl.TL2ParseSize(huge)
		if err == nil {
			return pbt.Fail("TL2ParseSize accepted size %d (> MaxInt) as %d", k.N, v)
		}
		if _, err := basictl.SkipSizedValue(huge); err == nil {
			return pbt.Fail("SkipSizedValue accepted size %d", k.N)
		}
		return pbt.Result{NonTrivial: true}
	})
}

// ---- bit vectors ---------------------------------------------------------------

type bitCase struct {
	Bits []bool `json:"bits"`
}

func TestC33BitVectors(t *testing.T) {
	pbt.Run(t, "tl2-bit-vector", pbt.Scale(20000, 500000), func(rt *rapid.T) bitCase {
		n := rapid.IntRange(0, 130).Draw(rt, "n")
		return bitCase{rapid.SliceOfN(rapid.Bool(), n, n).Draw(rt, "bits")}
	}, checkBits)
}

func TestC33BitVectorsAllLengths(t *testing.T) {
	pbt.Enumerate(t, "tl2-bit-vector-lengths", func(yield func(bitCase) bool) {
		for n := 0; n <= 130; n++ {
			for variant := 0; variant < 4; variant++ {
				b := make([]bool, n)
				for i := range b {
					switch variant {
					case 0:
						b[i] = true
					case 1:
						b[i] = i%2 == 0
					case 2:
						b[i] = i == n-1
					case 3:
						b[i] = i%8 == 7 || i%8 == 0
					}
				}
				if !yield(bitCase{b}) {
					return
				}
			}
		}
	}, checkBits)
}

func checkBits(c bitCase) pbt.Result {
	n := len(c.Bits)
	want := make([]byte, (n+7)/8)
	for i, b := range c.Bits {
		if b {
			want[i/8] |= 1 << (i % 8)
		}
	}
	got := basictl.VectorBitContentWriteTL2([]byte{0x55}, c.Bits)
	if !bytes.Equal(got[1:], want) || got[0] != 0x55 {
		return pbt.Fail("VectorBitContentWriteTL2(%d bits) = %x, reference %x", n, got[1:], want)
	}
	out := make([]bool, n)
	for i := range out {
		out[i] = !c.Bits[i] // must be overwritten
	}
	rest, err := basictl.VectorBitContentReadTL2(append(append([]byte{}, want...), junk...), out)
	if err != nil || !bytes.Equal(rest, junk) {
		return pbt.Fail("VectorBitContentReadTL2(%d bits): err %v rest %x", n, err, rest)
	}
	for i := range out {
		if out[i] != c.Bits[i] {
			return pbt.Fail("VectorBitContentReadTL2(%d bits): bit %d differs", n, i)
		}
	}
	// garbage in the unused high bits of the last byte must not change the value
	if n%8 != 0 {
		g := append([]byte{}, want...)
		g[len(g)-1] |= 0xff << (n % 8)
		if _, err := basictl.VectorBitContentReadTL2(g, out); err != nil {
			return pbt.Fail("VectorBitContentReadTL2 with set unused bits: %v", err)
		}
		for i := range out {
			if out[i] != c.Bits[i] {
				return pbt.Fail("VectorBitContentReadTL2(%d bits) with set unused bits: bit %d differs", n, i)
			}
		}
	}
	for cut := 0; cut < len(want); cut++ {
		if _, err := basictl.VectorBitContentReadTL2(want[:cut], out); !errors.Is(err, io.ErrUnexpectedEOF) {
			return pbt.Fail("VectorBitContentReadTL2 truncated to %d of %d bytes: want io.ErrUnexpectedEOF, got %v", cut, len(want), err)
		}
	}
	nt := 0
	for _, b := range c.Bits {
		if b {
			nt++
		}
	}
	return pbt.Result{NonTrivial: n >= 2 && nt >= 1, Classes: []string{fmt.Sprintf("bits-mod8-%d", n%8)}}
}
