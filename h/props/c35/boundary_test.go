package c35

import (
	"bytes"
	"net"
	"sync"
	"testing"
	"time"

	"github.com/VKCOM/tl/pkg/rpc"
	"github.com/VKCOM/tl/verifh/pbt"
	"pgregory.net/rapid"
)

// Packets at the upper size limit: the writer may refuse a body (then the stream must stay usable and carry nothing of
// it), but whatever it accepts must arrive identically, and the packets after it as well. (Added after a second-round
// seeded change moved the writer's limit 16 bytes above the reader's.)

type limitCase struct {
	Encrypted bool   `json:"encrypted"`
	Version   uint32 `json:"protocol_version"`
	Delta     int    `json:"size_minus_16MiB"` // body size = 16 MiB + Delta
	Salt      int    `json:"salt"`
}

const sixteenMiB = 16 * 1024 * 1024

func checkLimit(c limitCase) pbt.Result {
	cliAddr := &net.TCPAddr{IP: net.IPv4(127, 0, 0, 1), Port: 40001}
	srvAddr := &net.TCPAddr{IP: net.IPv4(127, 0, 0, 1), Port: 40002}
	c2s, s2c := newHalf(nil), newHalf(nil)
	cc := &conn{in: s2c, out: c2s, local: cliAddr, remote: srvAddr}
	sc := &conn{in: c2s, out: s2c, local: srvAddr, remote: cliAddr}
	client := rpc.NewPacketConn(cc, 4096, 4096)
	server := rpc.NewPacketConn(sc, 4096, 4096)
	defer cc.Close()
	defer sc.Close()
	now := uint32(time.Now().Unix())
	var wg sync.WaitGroup
	var cerr, serr error
	wg.Add(2)
	go func() {
		defer wg.Done()
		if cerr = client.HandshakeClient(key, nil, c.Encrypted, now, 0, 0, c.Version); cerr != nil {
			cc.Close()
		}
	}()
	go func() {
		defer wg.Done()
		if _, _, serr = server.HandshakeServer([]string{key}, nil, c.Encrypted, now, 0); serr != nil {
			sc.Close()
		}
	}()
	wg.Wait()
	if cerr != nil || serr != nil {
		return pbt.Fail("handshake failed: client %v / server %v", cerr, serr)
	}
	size := sixteenMiB + c.Delta
	if c.Version == 0 {
		size &^= 3
	}
	big := body(packet{Size: size, Salt: c.Salt})
	small1, small2 := body(packet{Size: 24, Salt: c.Salt + 1}), body(packet{Size: 40, Salt: c.Salt + 2})
	type wp struct {
		tip  uint32
		body []byte
	}
	var expect []wp
	if err := client.WritePacket(0x1001, small1, 0); err != nil {
		return pbt.Fail("WritePacket of a 24-byte body: %v", err)
	}
	expect = append(expect, wp{0x1001, small1})
	werr := client.WritePacket(0x1002, big, 0)
	cls := []string{"refused-by-the-writer"}
	if werr == nil {
		expect = append(expect, wp{0x1002, big})
		cls = []string{"accepted-by-the-writer"}
	}
	if err := client.WritePacket(0x1003, small2, 0); err != nil {
		return pbt.Fail("after a body of %d bytes (%v) the next WritePacket fails: %v", size, werr, err)
	}
	expect = append(expect, wp{0x1003, small2})
	if err := client.ShutdownWrite(); err != nil {
		return pbt.Fail("ShutdownWrite: %v", err)
	}
	for i, e := range expect {
		tip, b, err := server.ReadPacket(nil, 0)
		if err != nil {
			return pbt.Fail("body size %d (writer: %v): reading packet #%d of %d failed: %v", size, werr, i, len(expect), err)
		}
		if tip != e.tip || !bytes.Equal(b, e.body) {
			return pbt.Fail("body size %d: packet #%d arrived altered (type %#x len %d, expected type %#x len %d)", size, i, tip, len(b), e.tip, len(e.body))
		}
	}
	return pbt.Result{NonTrivial: true, Classes: cls}
}

func TestC35SizeLimit(t *testing.T) {
	pbt.Run(t, "packet-size-limit", pbt.Scale(24, 300), func(rt *rapid.T) limitCase {
		return limitCase{
			Encrypted: rapid.Bool().Draw(rt, "enc"),
			Version:   rapid.SampledFrom([]uint32{0, 1, 2}).Draw(rt, "version"),
			Delta:     rapid.IntRange(-40, 8).Draw(rt, "delta"),
			Salt:      rapid.IntRange(0, 1000).Draw(rt, "salt"),
		}
	}, checkLimit)
}
