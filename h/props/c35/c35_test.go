package c35

import (
	"bytes"
	"errors"
	"fmt"
	"io"
	"net"
	"sync"
	"testing"
	"time"

	"github.com/VKCOM/tl/pkg/rpc"
	"github.com/VKCOM/tl/verifh/pbt"
	"pgregory.net/rapid"
)

// ---- harness-owned in-memory duplex connection with scripted read chunking ----

type halfPipe struct {
	mu     sync.Mutex
	cond   *sync.Cond
	buf    []byte // everything ever written (so that the test can corrupt unread bytes)
	rd     int    // read position
	closed bool
	chunks []int // read sizes, cycled
	ci     int
}

func newHalf(chunks []int) *halfPipe {
	h := &halfPipe{chunks: chunks}
	h.cond = sync.NewCond(&h.mu)
	return h
}

func (h *halfPipe) write(p []byte) (int, error) {
	h.mu.Lock()
	defer h.mu.Unlock()
	if h.closed {
		return 0, io.ErrClosedPipe
	}
	h.buf = append(h.buf, p...)
	h.cond.Broadcast()
	return len(p), nil
}

func (h *halfPipe) read(p []byte) (int, error) {
	h.mu.Lock()
	defer h.mu.Unlock()
	for h.rd == len(h.buf) && !h.closed {
		h.cond.Wait()
	}
	if h.rd == len(h.buf) {
		return 0, io.EOF
	}
	n := min(len(p), len(h.buf)-h.rd)
	if len(h.chunks) > 0 {
		n = min(n, max(1, h.chunks[h.ci%len(h.chunks)]))
		h.ci++
	}
	copy(p, h.buf[h.rd:h.rd+n])
	h.rd += n
	return n, nil
}

func (h *halfPipe) close() {
	h.mu.Lock()
	h.closed = true
	h.cond.Broadcast()
	h.mu.Unlock()
}

type conn struct {
	in, out       *halfPipe
	local, remote net.Addr
}

func (c *conn) Read(p []byte) (int, error)         { return c.in.read(p) }
func (c *conn) Write(p []byte) (int, error)        { return c.out.write(p) }
func (c *conn) Close() error                       { c.in.close(); c.out.close(); return nil }
func (c *conn) CloseWrite() error                  { c.out.close(); return nil }
func (c *conn) LocalAddr() net.Addr                { return c.local }
func (c *conn) RemoteAddr() net.Addr               { return c.remote }
func (c *conn) SetDeadline(t time.Time) error      { return nil }
func (c *conn) SetReadDeadline(t time.Time) error  { return nil }
func (c *conn) SetWriteDeadline(t time.Time) error { return nil }

// ---- case ----

type packet struct {
	Type  uint32 `json:"type"`
	Size  int    `json:"size"`
	Salt  int    `json:"salt"`
	Flush bool   `json:"flush"` // flush after this packet
}

type streamCase struct {
	Encrypted bool     `json:"encrypted"` // forced through addresses / forceEncryption
	Force     bool     `json:"force_encryption"`
	Version   uint32   `json:"protocol_version"`
	ReadBuf   int      `json:"read_buf"`
	WriteBuf  int      `json:"write_buf"`
	Chunks    []int    `json:"read_chunks"`
	Packets   []packet `json:"packets"`
	Corrupt   bool     `json:"corrupt"`
	CorruptAt int      `json:"corrupt_at_permille"` // position in the post-handshake stream
	Xor       byte     `json:"xor"`
}

const key = "verif-crypto-key-verif-crypto-key-0123456789abcdef"

func body(p packet) []byte {
	b := make([]byte, p.Size)
	x := uint32(p.Salt)*2654435761 + uint32(p.Size)
	for i := range b {
		x = x*1664525 + 1013904223
		b[i] = byte(x >> 24)
	}
	return b
}

func genCase(rt *rapid.T) streamCase {
	c := streamCase{
		Version:  rapid.SampledFrom([]uint32{0, 1, 2, 2}).Draw(rt, "version"),
		ReadBuf:  rapid.SampledFrom([]int{1, 16, 512, 2048, 4096, 32768}).Draw(rt, "rbuf"),
		WriteBuf: rapid.SampledFrom([]int{1, 512, 4096, 32768}).Draw(rt, "wbuf"),
	}
	switch rapid.IntRange(0, 3).Draw(rt, "mode") {
	case 0: // loopback, plain
	case 1: // loopback, forced encryption
		c.Encrypted, c.Force = true, true
	default: // different machines: encryption required by addresses
		c.Encrypted = true
	}
	nch := rapid.IntRange(0, 6).Draw(rt, "nchunks")
	for i := 0; i < nch; i++ {
		c.Chunks = append(c.Chunks, rapid.SampledFrom([]int{1, 2, 3, 5, 7, 11, 13, 16, 17, 100, 333, 1000, 1448, 4096, 70000}).Draw(rt, "chunk"))
	}
	n := rapid.IntRange(1, 12).Draw(rt, "npackets")
	for i := 0; i < n; i++ {
		size := rapid.OneOf(rapid.IntRange(0, 40), rapid.IntRange(0, 600), rapid.IntRange(1000, 9000), rapid.IntRange(30000, 70000)).Draw(rt, "size")
		if c.Version == 0 {
			size &^= 3
		}
		c.Packets = append(c.Packets, packet{
			Type:  rapid.Uint32Range(0x10000000, 0x4fffffff).Draw(rt, "type"),
			Size:  size,
			Salt:  rapid.IntRange(0, 1<<20).Draw(rt, "salt"),
			Flush: rapid.IntRange(0, 2).Draw(rt, "flush") > 0,
		})
	}
	if rapid.Bool().Draw(rt, "corrupt") {
		c.Corrupt = true
		c.CorruptAt = rapid.IntRange(0, 999).Draw(rt, "at")
		c.Xor = byte(rapid.IntRange(1, 255).Draw(rt, "xor"))
		for i := range c.Packets {
			c.Packets[i].Flush = true // per-packet stream spans are needed to locate the damaged packet
		}
	}
	return c
}

func check(c streamCase) pbt.Result {
	cliAddr := &net.TCPAddr{IP: net.IPv4(127, 0, 0, 1), Port: 40001}
	srvAddr := &net.TCPAddr{IP: net.IPv4(127, 0, 0, 1), Port: 40002}
	if c.Encrypted && !c.Force {
		cliAddr = &net.TCPAddr{IP: net.IPv4(10, 1, 0, 1), Port: 40001}
		srvAddr = &net.TCPAddr{IP: net.IPv4(10, 2, 0, 2), Port: 40002}
	}
	c2s, s2c := newHalf(c.Chunks), newHalf(nil)
	cc := &conn{in: s2c, out: c2s, local: cliAddr, remote: srvAddr}
	sc := &conn{in: c2s, out: s2c, local: srvAddr, remote: cliAddr}
	client := rpc.NewPacketConn(cc, c.ReadBuf, c.WriteBuf)
	server := rpc.NewPacketConn(sc, c.ReadBuf, c.WriteBuf)
	defer cc.Close()
	defer sc.Close()

	now := uint32(time.Now().Unix())
	var wg sync.WaitGroup
	var cerr, serr error
	wg.Add(2)
	go func() {
		defer wg.Done()
		cerr = client.HandshakeClient(key, nil, c.Force, now, 0, 0, c.Version)
		if cerr != nil {
			cc.Close()
		}
	}()
	go func() {
		defer wg.Done()
		_, _, serr = server.HandshakeServer([]string{key}, nil, c.Force, now, 0)
		if serr != nil {
			sc.Close()
		}
	}()
	wg.Wait()
	if cerr != nil || serr != nil {
		return pbt.Fail("handshake failed: client %v / server %v", cerr, serr)
	}
	if client.Encrypted() != c.Encrypted || server.Encrypted() != c.Encrypted {
		return pbt.Fail("encryption negotiated client=%v server=%v, expected %v", client.Encrypted(), server.Encrypted(), c.Encrypted)
	}
	c2s.mu.Lock()
	hsEnd := len(c2s.buf)
	if c2s.rd != hsEnd {
		c2s.mu.Unlock()
		return pbt.Fail("harness: server did not consume the whole handshake (%d of %d)", c2s.rd, hsEnd)
	}
	c2s.mu.Unlock()

	// write everything, then close the write side; the pipe is unbounded so no reader is needed yet
	ends := make([]int, len(c.Packets)) // stream offset after the flush that covers packet i
	bodies := make([][]byte, len(c.Packets))
	for i, p := range c.Packets {
		bodies[i] = body(p)
		var err error
		if p.Flush {
			err = client.WritePacket(p.Type, bodies[i], 0)
		} else {
			err = client.WritePacketNoFlush(p.Type, bodies[i], 0)
		}
		if err != nil {
			return pbt.Fail("WritePacket #%d (size %d): %v", i, p.Size, err)
		}
		c2s.mu.Lock()
		ends[i] = len(c2s.buf)
		c2s.mu.Unlock()
	}
	if err := client.ShutdownWrite(); err != nil {
		return pbt.Fail("ShutdownWrite: %v", err)
	}
	c2s.mu.Lock()
	total := len(c2s.buf)
	damaged := len(c.Packets) // index of the first packet whose wire span can be affected
	corruptOff := -1
	if c.Corrupt && total > hsEnd {
		corruptOff = hsEnd + (total-hsEnd-1)*c.CorruptAt/999
		c2s.buf[corruptOff] ^= c.Xor
		lo := corruptOff
		if c.Encrypted {
			lo = hsEnd + (corruptOff-hsEnd)/16*16 // CBC: the whole cipher block is garbled
		}
		for i := range c.Packets {
			e := ends[i]
			if i == len(c.Packets)-1 {
				e = total
			}
			if e > lo { // first packet whose wire span reaches into the damaged region
				damaged = i
				break
			}
		}
	}
	c2s.mu.Unlock()

	// read until error
	var got int
	var rerr error
	for {
		tip, b, err := server.ReadPacket(nil, 0)
		if err != nil {
			rerr = err
			break
		}
		if got >= len(c.Packets) {
			return pbt.Fail("reader returned more packets (%d) than were written (%d)", got+1, len(c.Packets))
		}
		if tip != c.Packets[got].Type || !bytes.Equal(b, bodies[got]) {
			return pbt.Fail("packet #%d read as type %#x len %d, written as type %#x len %d (corruption at stream offset %d, first affected packet %d): altered packet delivered", got, tip, len(b), c.Packets[got].Type, len(bodies[got]), corruptOff, damaged)
		}
		got++
	}
	if corruptOff < 0 {
		if got != len(c.Packets) || !errors.Is(rerr, io.EOF) || errors.Is(rerr, io.ErrUnexpectedEOF) {
			return pbt.Fail("clean stream: read %d of %d packets, then %v (expected all packets, then io.EOF)", got, len(c.Packets), rerr)
		}
	} else {
		if got > damaged {
			return pbt.Fail("byte at stream offset %d corrupted (affects packet %d) but %d packets were delivered", corruptOff, damaged, got)
		}
		if rerr == io.EOF {
			return pbt.Fail("byte at stream offset %d corrupted but the reader ended with a clean io.EOF after %d of %d packets", corruptOff, got, len(c.Packets))
		}
	}
	big, split := false, false
	for _, p := range c.Packets {
		if p.Size > 16 {
			big = true
		}
	}
	for _, ch := range c.Chunks {
		if ch < 12 {
			split = true
		}
	}
	cls := []string{fmt.Sprintf("v%d", c.Version)}
	if c.Encrypted {
		cls = append(cls, "encrypted")
	} else {
		cls = append(cls, "plain")
	}
	if corruptOff >= 0 {
		cls = append(cls, "corrupted")
	}
	if split {
		cls = append(cls, "header-split")
	}
	return pbt.Result{NonTrivial: len(c.Packets) >= 3 && big && split, Classes: cls}
}

func TestC35Framing(t *testing.T) {
	pbt.Run(t, "packet-stream", pbt.Scale(4000, 300000), genCase, check)
}
