package c37

import (
	"fmt"
	"testing"

	"github.com/VKCOM/tl/pkg/rpc/udp"
	"github.com/VKCOM/tl/verifh/pbt"
	"pgregory.net/rapid"
)

type history struct {
	Base uint32      `json:"base"`
	Span uint32      `json:"span"` // numbers live in [base, base+span]
	Ops  [][2]uint32 `json:"ops"`  // (from, to) offsets relative to base, from <= to <= span
}

func genHistory(rt *rapid.T) history {
	var h history
	switch rapid.IntRange(0, 5).Draw(rt, "domain") {
	case 0, 1, 2:
		h.Span = 63
	case 3:
		h.Span = 4999
	case 4:
		h.Span = 63
		h.Base = 1<<32 - 2 - 63 // highest number is 2^32-2: to+1 never wraps
	case 5:
		h.Span = 40
		h.Base = rapid.Uint32Range(1, 1<<31).Draw(rt, "base")
	}
	n := rapid.IntRange(1, 40).Draw(rt, "n")
	for i := 0; i < n; i++ {
		from := rapid.Uint32Range(0, h.Span).Draw(rt, "from")
		var to uint32
		if rapid.IntRange(0, 3).Draw(rt, "shape") == 0 {
			to = rapid.Uint32Range(from, h.Span).Draw(rt, "to")
		} else {
			to = min(h.Span, from+rapid.Uint32Range(0, 4).Draw(rt, "len"))
		}
		h.Ops = append(h.Ops, [2]uint32{from, to})
	}
	return h
}

func check(h history) pbt.Result {
	var a udp.AcksToSend
	model := make([]bool, h.Span+1)
	inDomain := func(x uint32) bool { return x >= h.Base && x-h.Base <= h.Span }
	merged, absorbed := false, false
	for step, op := range h.Ops {
		from, to := h.Base+op[0], h.Base+op[1]
		_, before := udp.VerifAckState(&a)
		pBefore, _ := udp.VerifAckState(&a)
		a.AddAckRange(from, to)
		for x := op[0]; x <= op[1]; x++ {
			model[x] = true
		}
		prefix, ranges := udp.VerifAckState(&a)
		if len(ranges) < len(before) {
			if prefix > pBefore {
				absorbed = true
			} else {
				merged = true
			}
		}
		where := fmt.Sprintf("after step %d AddAckRange(%d,%d): prefix=%d ranges=%v", step, from, to, prefix, ranges)
		// representation invariants
		if h.Base > 0 && prefix != 0 {
			return pbt.Fail("%s: prefix moved although 0 was never recorded", where)
		}
		last := int64(prefix) - 1 // highest number covered so far (exclusive prefix bound - 1)
		for i, r := range ranges {
			if r[0] > r[1] {
				return pbt.Fail("%s: range %d is inverted", where, i)
			}
			if !inDomain(r[0]) || !inDomain(r[1]) {
				return pbt.Fail("%s: range %d covers numbers never recorded", where, i)
			}
			// sorted, disjoint and non-adjacent: a gap of at least one unrecorded number before every range
			if int64(r[0]) <= last+1 {
				return pbt.Fail("%s: range %d is not separated from what precedes it (prefix or previous range)", where, i)
			}
			last = int64(r[1])
		}
		// set equality with the model
		full := h.Span <= 64 || step == len(h.Ops)-1 || step%8 == 7
		if full {
			covered := func(x uint32) bool {
				if x < prefix {
					return true
				}
				for _, r := range ranges {
					if x >= r[0] && x <= r[1] {
						return true
					}
				}
				return false
			}
			for off := uint32(0); off <= h.Span; off++ {
				if covered(h.Base+off) != model[off] {
					return pbt.Fail("%s: number %d recorded=%v but acknowledgement set says %v", where, h.Base+off, model[off], covered(h.Base+off))
				}
			}
			if h.Base == 0 && prefix > h.Span+1 {
				return pbt.Fail("%s: prefix beyond every recorded number", where)
			}
		}
		// headers
		recorded := func(x uint32) bool { return inDomain(x) && model[x-h.Base] }
		hd := udp.VerifBuildAck(&a)
		if hd.HasPrefix {
			// acknowledges 0..Prefix inclusive
			if h.Base > 0 {
				return pbt.Fail("%s: ack header acknowledges prefix ..%d, nothing below %d was recorded", where, hd.Prefix, h.Base)
			}
			if hd.Prefix > h.Span {
				return pbt.Fail("%s: ack header prefix %d beyond recorded numbers", where, hd.Prefix)
			}
			for x := uint32(0); x <= hd.Prefix; x++ {
				if !model[x] {
					return pbt.Fail("%s: ack header prefix ..%d acknowledges unrecorded %d", where, hd.Prefix, x)
				}
			}
		}
		if hd.HasFromTo {
			if hd.From > hd.To || !inDomain(hd.From) || !inDomain(hd.To) {
				return pbt.Fail("%s: ack header range [%d..%d] not within recorded numbers", where, hd.From, hd.To)
			}
			for x := hd.From; x <= hd.To; x++ {
				if !recorded(x) {
					return pbt.Fail("%s: ack header range [%d..%d] acknowledges unrecorded %d", where, hd.From, hd.To, x)
				}
			}
		}
		if hd.HasSet {
			for _, x := range hd.Set {
				if !recorded(x) {
					return pbt.Fail("%s: ack header set acknowledges unrecorded %d (set %v)", where, x, hd.Set)
				}
			}
		}
		for _, nr := range udp.VerifBuildNegativeAck(&a) {
			if nr[0] > nr[1] {
				continue // empty request
			}
			lo, hi := max(nr[0], h.Base), min(nr[1], h.Base+h.Span)
			for x := lo; x <= hi && x >= lo; x++ {
				if recorded(x) {
					return pbt.Fail("%s: resend request [%d..%d] asks for recorded %d", where, nr[0], nr[1], x)
				}
				if x == 1<<32-1 {
					break
				}
			}
		}
	}
	cls := []string{fmt.Sprintf("span-%d", h.Span)}
	if h.Base > 0 {
		cls = append(cls, "high-base")
	}
	if merged {
		cls = append(cls, "merged-ranges")
	}
	if absorbed {
		cls = append(cls, "absorbed-into-prefix")
	}
	return pbt.Result{NonTrivial: merged || absorbed, Classes: cls}
}

func TestC37Acks(t *testing.T) {
	pbt.Run(t, "ack-history", pbt.Scale(20000, 2000000), genHistory, check)
}

// TestC37Exhaustive enumerates every history of up to 3 ranges over the numbers 0..5.
func TestC37Exhaustive(t *testing.T) {
	var rs [][2]uint32
	for f := uint32(0); f <= 5; f++ {
		for to := f; to <= 5; to++ {
			rs = append(rs, [2]uint32{f, to})
		}
	}
	pbt.Enumerate(t, "ack-history-exhaustive-3x[0..5]", func(yield func(history) bool) {
		for _, base := range []uint32{0, 7} {
			for _, a := range rs {
				for _, b := range rs {
					for _, c := range rs {
						if !yield(history{Base: base, Span: 5, Ops: [][2]uint32{a, b, c}}) {
							return
						}
					}
				}
			}
		}
	}, check)
}
