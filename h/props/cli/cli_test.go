// Package cli holds the checks that drive the generators through their command lines: C24 (unique non-zero tags),
// C25 (canonical listing), C26 (TLO output).
package cli

import (
	"bytes"
	"encoding/json"
	"fmt"
	"os"
	"os/exec"
	"path/filepath"
	"reflect"
	"sort"
	"strings"
	"testing"

	"github.com/VKCOM/tl/internal/tlast"
	"github.com/VKCOM/tl/verifh/pbt"
	"github.com/VKCOM/tl/verifh/schemagen"
	"pgregory.net/rapid"
)

type fileSet struct {
	Schema *schemagen.Schema `json:"schema,omitempty"`
	Layout schemagen.Layout  `json:"layout"`
	Split  int               `json:"split_after,omitempty"` // generated schema written as two files, split after this many user combinators
	Repo   []string          `json:"repo_files,omitempty"`
	Text   string            `json:"text,omitempty"` // literal single-file schema (sentinels)
	Stamp  uint32            `json:"timestamp,omitempty"`
}

var tls = "/repo/internal/tlcodegen/test/tls/"
var repoSets = [][]string{{tls + "cases.tl"}, {tls + "goldmaster.tl", tls + "goldmaster2.tl", tls + "goldmaster3.tl"}, {tls + "schema.tl"}, {"/verif/schemas/sink.tl"}, {"/repo/pkg/rpc/rpc.tl"}}

func workDir() string {
	d := os.Getenv("VERIF_WORK")
	if d == "" {
		d = os.TempDir()
	}
	return d
}

// materialise writes the case's schema files and returns their paths.
func (c *fileSet) materialise() (dir string, files []string, err error) {
	dir, err = os.MkdirTemp(workDir(), "cli")
	if err != nil {
		return "", nil, err
	}
	if len(c.Repo) > 0 {
		return dir, c.Repo, nil
	}
	if c.Text != "" {
		f := filepath.Join(dir, "lit.tl")
		return dir, []string{f}, os.WriteFile(f, []byte(c.Text), 0o644)
	}
	if c.Split > 0 && c.Split < len(c.Schema.Combs) && !c.Schema.Combs[c.Split-1].IsFunc && !c.Schema.Combs[c.Split].IsFunc {
		a := &schemagen.Schema{Combs: c.Schema.Combs[:c.Split]}
		b := &schemagen.Schema{Combs: c.Schema.Combs[c.Split:]}
		fa, fb := filepath.Join(dir, "part1.tl"), filepath.Join(dir, "part2.tl")
		tb := strings.TrimPrefix(b.Text(c.Layout), schemagen.Prelude)
		if err := os.WriteFile(fa, []byte(a.Text(c.Layout)), 0o644); err != nil {
			return dir, nil, err
		}
		return dir, []string{fa, fb}, os.WriteFile(fb, []byte(tb), 0o644)
	}
	f := filepath.Join(dir, "schema.tl")
	return dir, []string{f}, os.WriteFile(f, []byte(c.Schema.Text(c.Layout)), 0o644)
}

type parsedComb struct {
	M       *schemagen.Comb
	File    string
	Builtin bool
}

func parseFiles(files []string) ([]parsedComb, error) {
	var out []parsedComb
	for _, f := range files {
		b, err := os.ReadFile(f)
		if err != nil {
			return nil, err
		}
		tl, err := tlast.ParseTLFile(string(b), f, tlast.LexerOptions{LexerLanguage: tlast.TL1})
		if err != nil {
			return nil, err
		}
		for _, c := range tl.Combinators() {
			out = append(out, parsedComb{M: schemagen.FromTlast(c), File: f, Builtin: c.Builtin})
		}
	}
	return out, nil
}

func run(tool string, args ...string) (string, int) {
	cmd := exec.Command(os.Getenv("VERIF_TOOL_"+tool), args...)
	var buf bytes.Buffer
	cmd.Stdout, cmd.Stderr = &buf, &buf
	err := cmd.Run()
	code := 0
	if err != nil {
		code = 1
		if ee, ok := err.(*exec.ExitError); ok {
			code = ee.ExitCode()
		}
	}
	return buf.String(), code
}

func genFileSet(rt *rapid.T) fileSet {
	if rapid.IntRange(0, 9).Draw(rt, "repo") == 0 {
		return fileSet{Repo: repoSets[rapid.IntRange(0, len(repoSets)-1).Draw(rt, "set")], Stamp: rapid.Uint32Range(1, 1<<31-1).Draw(rt, "stamp")}
	}
	s := schemagen.Generate(rt, schemagen.DefaultOpts())
	return fileSet{Schema: s, Layout: schemagen.Layout{Seed: rapid.Uint64().Draw(rt, "layout"), Level: 1}, Split: rapid.IntRange(0, len(s.Combs)).Draw(rt, "split"), Stamp: rapid.Uint32Range(1, 1<<31-1).Draw(rt, "stamp")}
}

func hasApplication(m *schemagen.Comb) bool {
	var tHas func(t *schemagen.TypeExpr) bool
	tHas = func(t *schemagen.TypeExpr) bool {
		if len(t.Args) > 0 {
			return true
		}
		for i := range t.Rep {
			if tHas(&t.Rep[i].Type) {
				return true
			}
		}
		return false
	}
	for i := range m.Fields {
		if tHas(&m.Fields[i].Type) {
			return true
		}
	}
	return m.FuncResult != nil && tHas(m.FuncResult)
}

func expectedCanonicalLine(p parsedComb) string {
	m := p.M
	var sb strings.Builder
	fmt.Fprintf(&sb, "%s#%08x ", m.Name, m.EffectiveTag())
	for _, q := range m.Params {
		k := "Type"
		if q.IsNat {
			k = "#"
		}
		sb.WriteString("{" + q.Name + ":" + k + "} ")
	}
	c := m.Canonical() // name params fields = result
	rest := strings.TrimPrefix(c, m.Name+" ")
	for _, q := range m.Params {
		k := "Type"
		if q.IsNat {
			k = "#"
		}
		rest = strings.TrimPrefix(rest, q.Name+":"+k+" ")
	}
	sb.WriteString(rest)
	return sb.String()
}

// ---- C25 -----------------------------------------------------------------------------------------------------

func checkC25(c fileSet) pbt.Result {
	dir, files, err := c.materialise()
	if err != nil {
		pbt.Inconclusive("cannot write schema files: %v", err)
	}
	defer os.RemoveAll(dir)
	out := filepath.Join(dir, "canonical.tl")
	log, code := run("tl2gen", append([]string{"--language=canonical", "--outfile=" + out}, files...)...)
	if code != 0 {
		if strings.Contains(log, "panic:") || strings.Contains(log, "goroutine ") {
			return pbt.Fail("tl2gen --language=canonical crashed:\n%s", tailStr(log, 15))
		}
		return pbt.Result{Classes: []string{"schema-rejected"}}
	}
	b, err := os.ReadFile(out)
	if err != nil {
		return pbt.Fail("canonical listing succeeded but wrote no file: %v", err)
	}
	input, err := parseFiles(files)
	if err != nil {
		return pbt.Fail("harness: input does not parse: %v", err)
	}
	lines := strings.Split(strings.TrimRight(string(b), "\n"), "\n")
	header := []string{"int#a8509bda ? = Int", "long#22076cba ? = Long", "float#824dab22 ? = Float", "double#2210c154 ? = Double", "string#b5286e24 ? = String"}
	if len(lines) < 5 {
		return pbt.Fail("listing has %d lines", len(lines))
	}
	for i, h := range header {
		if lines[i] != h {
			return pbt.Fail("line %d of the listing is %q, expected the builtin %q", i+1, lines[i], h)
		}
	}
	var want []parsedComb
	for _, p := range input {
		switch p.M.Name {
		case "int", "long", "float", "double", "string":
			continue
		}
		want = append(want, p)
	}
	body := lines[5:]
	if len(body) != len(want) {
		return pbt.Fail("listing has %d combinator lines, the schema has %d constructors and functions (besides the five builtins)", len(body), len(want))
	}
	rich, parsedBack := 0, 0
	for i, p := range want {
		line := body[i]
		k := strings.LastIndex(line, " //  ")
		if k < 0 {
			return pbt.Fail("line %q does not end with the source file comment", line)
		}
		text, file := line[:k], line[k+5:]
		full := text // with its modifiers: this is what has to parse
		if filepath.Base(file) != filepath.Base(p.File) {
			return pbt.Fail("line %q names file %q, the combinator comes from %q", line, file, p.File)
		}
		// modifiers are not part of the comparison (the listing normalises them)
		for strings.HasPrefix(text, "@") {
			sp := strings.Index(text, " ")
			text = text[sp+1:]
		}
		if exp := expectedCanonicalLine(p); text != exp {
			return pbt.Fail("listing line for %s differs from the schema:\n got  %s\n want %s", p.M.Name, text, exp)
		}
		if p.M.Tag != nil || len(p.M.Params) > 0 || hasApplication(p.M) || strings.Contains(text, "[") || strings.Contains(text, "?") {
			rich++
		}
		// parse-back layer
		if hasApplication(p.M) {
			if pbt.Known("F11") && !pbt.Replaying() {
				continue // finding F11: a type application inside a field loses its parentheses in the listing
			}
		}
		src := full + ";"
		if p.M.IsFunc {
			src = "---functions---\n" + src
		}
		tl, err := tlast.ParseTLFile(src, "line.tl", tlast.LexerOptions{LexerLanguage: tlast.TL1})
		if err != nil {
			return pbt.Fail("terminated listing line does not parse: %v\n%s", err, src)
		}
		cs := tl.Combinators()
		if len(cs) != 1 {
			return pbt.Fail("terminated listing line parses into %d combinators: %s", len(cs), src)
		}
		got := schemagen.FromTlast(cs[0])
		orig := normalise(p.M)
		if !reflect.DeepEqual(normalise(got), orig) {
			a, _ := json.Marshal(normalise(got))
			o, _ := json.Marshal(orig)
			return pbt.Fail("listing line for %s parses into a different combinator:\n line   %s\n parsed %s\n schema %s", p.M.Name, src, a, o)
		}
		parsedBack++
	}
	cls := []string{}
	if len(c.Repo) > 0 {
		cls = append(cls, "repository-schema")
	}
	if len(files) > 1 {
		cls = append(cls, "multi-file")
	}
	if parsedBack > 0 {
		cls = append(cls, "parse-back-checked")
	}
	return pbt.Result{NonTrivial: rich > 0, Classes: cls}
}

// normalise maps a combinator to what the listing is meant to preserve: names, effective tag, template arguments,
// fields, result; annotations, the way a constant was spelled and '%'-vs-constructor-name spelling of bare
// references are layout.
func normalise(m *schemagen.Comb) *schemagen.Comb {
	b, _ := json.Marshal(m)
	var c schemagen.Comb
	json.Unmarshal(b, &c)
	t := m.EffectiveTag()
	c.Tag = &t
	c.Ann = nil
	var fix func(t *schemagen.TypeExpr)
	fix = func(t *schemagen.TypeExpr) {
		// '%' before a lower-case (constructor) name is redundant: the reference is bare either way
		if n := t.Name[strings.LastIndex(t.Name, ".")+1:]; t.Kind == "ref" && n != "" && !(n[0] >= 'A' && n[0] <= 'Z') {
			t.Bare = false
		}
		for i := range t.Args {
			if t.Args[i].Nat != nil {
				t.Args[i].Nat.Sum = nil
			} else {
				fix(t.Args[i].Type)
			}
		}
		if t.Scale != nil {
			t.Scale.Sum = nil
		}
		for i := range t.Rep {
			fix(&t.Rep[i].Type)
		}
	}
	for i := range c.Fields {
		fix(&c.Fields[i].Type)
	}
	if c.FuncResult != nil {
		fix(c.FuncResult)
	}
	return &c
}

func tailStr(s string, n int) string {
	lines := strings.Split(strings.TrimRight(s, "\n"), "\n")
	if len(lines) > n {
		lines = lines[len(lines)-n:]
	}
	return strings.Join(lines, "\n")
}

func TestC25Canonical(t *testing.T) {
	pbt.Run(t, "canonical-listing", pbt.Scale(300, 20000), genFileSet, checkC25)
}

// ---- C26 -----------------------------------------------------------------------------------------------------

func checkC26(c fileSet) pbt.Result {
	dir, files, err := c.materialise()
	if err != nil {
		pbt.Inconclusive("cannot write schema files: %v", err)
	}
	defer os.RemoveAll(dir)
	out := filepath.Join(dir, "schema.tlo")
	stamp := c.Stamp
	if stamp == 0 {
		stamp = 1
	}
	log, code := run("tl2gen", append([]string{"--language=tlo", "--outfile=" + out, fmt.Sprintf("--schemaTimestamp=%d", stamp)}, files...)...)
	if code != 0 {
		if strings.Contains(log, "panic:") || strings.Contains(log, "goroutine ") {
			return pbt.Fail("tl2gen --language=tlo crashed:\n%s", tailStr(log, 15))
		}
		return pbt.Result{Classes: []string{"schema-rejected"}}
	}
	b, err := os.ReadFile(out)
	if err != nil {
		return pbt.Fail("tlo generation succeeded but wrote no file: %v", err)
	}
	s, err := readTLO(b)
	if err != nil {
		return pbt.Fail("the TLO file does not decode by the TLO schema (tls.tl): %v", err)
	}
	if uint32(s.Date) != stamp {
		return pbt.Fail("TLO date %d, --schemaTimestamp %d", s.Date, stamp)
	}
	input, err := parseFiles(files)
	if err != nil {
		return pbt.Fail("harness: input does not parse: %v", err)
	}
	type key struct {
		id  string
		tag int32
	}
	wantC, wantF := map[key]int{}, map[key]int{}
	type tinfo struct {
		arity, n int
		params   int64
		xor      int32
	}
	types := map[string]*tinfo{}
	for _, p := range input {
		k := key{p.M.Name, int32(p.M.EffectiveTag())}
		if p.M.IsFunc {
			wantF[k]++
			continue
		}
		wantC[k]++
		ti := types[p.M.ResultType]
		if ti == nil {
			ti = &tinfo{arity: len(p.M.ResultArgs)}
			for i, q := range p.M.Params {
				if q.IsNat {
					ti.params |= 1 << i
				}
			}
			types[p.M.ResultType] = ti
		}
		ti.n++
		ti.xor ^= int32(p.M.EffectiveTag())
	}
	gotC, gotF := map[key]int{}, map[key]int{}
	for _, x := range s.Constructors {
		gotC[key{x.ID, x.Name}]++
	}
	for _, x := range s.Functions {
		gotF[key{x.ID, x.Name}]++
	}
	if d := diffCounts(wantC, gotC); d != "" {
		return pbt.Fail("TLO constructors differ from the schema's: %s", d)
	}
	if d := diffCounts(wantF, gotF); d != "" {
		return pbt.Fail("TLO functions differ from the schema's: %s", d)
	}
	seen := map[string]bool{}
	for _, tp := range s.Types {
		if tp.ID == "#" || tp.ID == "Type" {
			continue
		}
		if seen[tp.ID] {
			return pbt.Fail("TLO lists type %q twice", tp.ID)
		}
		seen[tp.ID] = true
		ti := types[tp.ID]
		if ti == nil {
			return pbt.Fail("TLO lists type %q which the schema does not declare", tp.ID)
		}
		if int(tp.Arity) != ti.arity || tp.ParamsType != ti.params || int(tp.ConstructorsNum) != ti.n || tp.Name != ti.xor {
			return pbt.Fail("TLO type %q: arity %d params_type %#x constructors %d name %08x; schema says arity %d params_type %#x constructors %d name (XOR of constructor tags) %08x", tp.ID, tp.Arity, tp.ParamsType, tp.ConstructorsNum, uint32(tp.Name), ti.arity, ti.params, ti.n, uint32(ti.xor))
		}
	}
	for id := range types {
		if !seen[id] {
			return pbt.Fail("schema type %q is missing from the TLO", id)
		}
	}
	// constructors point at their type's name
	byID := map[string]int32{}
	for _, tp := range s.Types {
		byID[tp.ID] = tp.Name
	}
	for _, p := range input {
		if p.M.IsFunc {
			continue
		}
		for _, x := range s.Constructors {
			if x.ID == p.M.Name && x.TypeName != byID[p.M.ResultType] && x.Args >= 0 {
				return pbt.Fail("TLO constructor %q has type_name %08x, its type %q has name %08x", x.ID, uint32(x.TypeName), p.M.ResultType, uint32(byID[p.M.ResultType]))
			}
		}
	}
	unions := 0
	for _, ti := range types {
		if ti.n > 1 {
			unions++
		}
	}
	cls := []string{}
	if len(c.Repo) > 0 {
		cls = append(cls, "repository-schema")
	}
	if len(files) > 1 {
		cls = append(cls, "multi-file")
	}
	return pbt.Result{NonTrivial: unions > 0 && len(wantF) > 0, Classes: cls}
}

func diffCounts[K comparable](want, got map[K]int) string {
	var out []string
	for k, n := range want {
		if got[k] != n {
			out = append(out, fmt.Sprintf("%v expected %d time(s), listed %d", k, n, got[k]))
		}
	}
	for k, n := range got {
		if want[k] == 0 {
			out = append(out, fmt.Sprintf("%v listed %d time(s) but not in the schema", k, n))
		}
	}
	sort.Strings(out)
	if len(out) > 4 {
		out = out[:4]
	}
	return strings.Join(out, "; ")
}

func TestC26TLO(t *testing.T) {
	pbt.Run(t, "tlo-output", pbt.Scale(300, 20000), genFileSet, checkC26)
}

// ---- C24 -----------------------------------------------------------------------------------------------------

type tagPlant struct {
	fileSet
	Plant string `json:"plant"` // none explicit-explicit explicit-implicit zero func-vs-type
	A     int    `json:"a"` // indices of the two combinators involved (modulo the number of candidates)
	B     int    `json:"b"`
}

func genTagPlant(rt *rapid.T) tagPlant {
	o := schemagen.DefaultOpts()
	s := schemagen.Generate(rt, o)
	return tagPlant{
		fileSet: fileSet{Schema: s, Layout: schemagen.Layout{Seed: rapid.Uint64().Draw(rt, "layout"), Level: 1}, Split: rapid.IntRange(0, len(s.Combs)).Draw(rt, "split")},
		Plant:   rapid.SampledFrom([]string{"none", "none", "explicit-explicit", "explicit-implicit", "explicit-implicit", "zero", "func-vs-type"}).Draw(rt, "plant"),
		A:       rapid.IntRange(0, 1000).Draw(rt, "a"), B: rapid.IntRange(0, 1000).Draw(rt, "b"),
	}
}

func checkC24(c tagPlant) pbt.Result {
	// apply the plant on a copy of the schema
	b, _ := json.Marshal(c.Schema)
	var s schemagen.Schema
	json.Unmarshal(b, &s)
	n := len(s.Combs)
	planted := false
	if n >= 2 && c.Plant != "none" {
		i, j := c.A%n, c.B%n
		if i == j {
			j = (j + 1) % n
		}
		switch c.Plant {
		case "explicit-explicit":
			t := uint32(0x1234abcd) + uint32(c.A)
			s.Combs[i].Tag, s.Combs[j].Tag = &t, &t
			planted = true
		case "explicit-implicit":
			s.Combs[i].Tag = nil
			t := s.Combs[i].EffectiveTag() // CRC32 of the other combinator's canonical form
			s.Combs[j].Tag = &t
			planted = true
		case "zero":
			z := uint32(0)
			s.Combs[i].Tag = &z
			planted = true
		case "func-vs-type":
			var f, ty = -1, -1
			for k, x := range s.Combs {
				if x.IsFunc && f < 0 {
					f = k
				}
				if !x.IsFunc && ty < 0 {
					ty = k
				}
			}
			if f >= 0 && ty >= 0 {
				t := s.Combs[ty].EffectiveTag()
				s.Combs[f].Tag = &t
				planted = true
			}
		}
	}
	fs := c.fileSet
	fs.Schema = &s
	dir, files, err := fs.materialise()
	if err != nil {
		pbt.Inconclusive("cannot write schema files: %v", err)
	}
	defer os.RemoveAll(dir)
	// reference view of the tags
	input, err := parseFiles(files)
	if err != nil {
		return pbt.Fail("harness: input does not parse: %v", err)
	}
	dup := ""
	seen := map[uint32]string{}
	for _, p := range input {
		t := p.M.EffectiveTag()
		if t == 0 {
			dup = fmt.Sprintf("%s has tag 0", p.M.Name)
		}
		if prev, ok := seen[t]; ok && prev != p.M.Name {
			dup = fmt.Sprintf("%s and %s share tag %08x", prev, p.M.Name, t)
		}
		seen[t] = p.M.Name
	}
	if planted && dup == "" {
		return pbt.Fail("harness: plant %s produced no collision", c.Plant)
	}
	cls := []string{"plant-" + c.Plant}
	for _, tool := range []struct{ name string; args []string }{{"tl2gen", []string{"--language=lint"}}, {"tlgen", nil}} {
		log, code := run(tool.name, append(append([]string{}, tool.args...), files...)...)
		if strings.Contains(log, "panic:") || strings.Contains(log, "goroutine ") {
			return pbt.Fail("%s crashed on the schema:\n%s", tool.name, tailStr(log, 12))
		}
		if code == 0 {
			if dup != "" {
				return pbt.Fail("%s accepts a schema whose tags are not unique and non-zero: %s (plant %s)", tool.name, dup, c.Plant)
			}
			cls = append(cls, tool.name+"-accepts")
		} else {
			if strings.TrimSpace(log) == "" {
				return pbt.Fail("%s rejects the schema without a message (exit %d)", tool.name, code)
			}
			cls = append(cls, tool.name+"-rejects")
		}
	}
	return pbt.Result{NonTrivial: planted, Classes: cls}
}

func TestC24Tags(t *testing.T) {
	pbt.Run(t, "unique-tags", pbt.Scale(300, 20000), genTagPlant, checkC24)
}
