package cli

import (
	"encoding/binary"
	"fmt"
	"os"

	"github.com/VKCOM/tl/internal/tlast"
)

// Independent reader of the TLO format (schema internal/tlast/tls.tl), written by hand for the harness: it only needs
// the constructor tags of tls.tl, which are computed from the text of that file.

type tloType struct {
	Name            int32
	ID              string
	ConstructorsNum int32
	Flags           int32
	Arity           int32
	ParamsType      int64
}

type tloComb struct {
	Name     int32
	ID       string
	TypeName int32
	Args     int // number of left-hand arguments (-1: builtin)
}

type tloSchema struct {
	Version, Date int32
	Types         []tloType
	Constructors  []tloComb
	Functions     []tloComb
}

type tloReader struct {
	b    []byte
	pos  int
	tags map[string]uint32
	err  error
}

func (r *tloReader) fail(format string, a ...any) {
	if r.err == nil {
		r.err = fmt.Errorf("offset %d: "+format, append([]any{r.pos}, a...)...)
	}
}

func (r *tloReader) u32() uint32 {
	if r.err != nil || r.pos+4 > len(r.b) {
		r.fail("unexpected end")
		return 0
	}
	v := binary.LittleEndian.Uint32(r.b[r.pos:])
	r.pos += 4
	return v
}

func (r *tloReader) i32() int32 { return int32(r.u32()) }
func (r *tloReader) i64() int64 { lo := uint64(r.u32()); hi := uint64(r.u32()); return int64(lo | hi<<32) }

func (r *tloReader) str() string {
	if r.err != nil || r.pos >= len(r.b) {
		r.fail("unexpected end")
		return ""
	}
	l, hdr := int(r.b[r.pos]), 1
	if l == 254 {
		if r.pos+4 > len(r.b) {
			r.fail("unexpected end")
			return ""
		}
		l, hdr = int(r.b[r.pos+1])|int(r.b[r.pos+2])<<8|int(r.b[r.pos+3])<<16, 4
	} else if l == 255 {
		r.fail("huge string")
		return ""
	}
	end := r.pos + (hdr+l+3)&^3
	if end > len(r.b) {
		r.fail("unexpected end in string")
		return ""
	}
	s := string(r.b[r.pos+hdr : r.pos+hdr+l])
	r.pos = end
	return s
}

func (r *tloReader) expect(names ...string) string {
	t := r.u32()
	for _, n := range names {
		if r.tags[n] == t {
			return n
		}
	}
	r.fail("tag %08x is none of %v", t, names)
	return ""
}

func (r *tloReader) natExpr() {
	switch r.expect("tls.natConst", "tls.natVar") {
	case "tls.natConst":
		r.i32()
	case "tls.natVar":
		r.i32()
		r.i32()
	}
}

func (r *tloReader) arg() {
	r.expect("tls.arg")
	r.str()
	flags := r.u32()
	if flags&2 != 0 {
		r.i32()
	}
	if flags&4 != 0 {
		r.i32()
		r.i32()
	}
	r.typeExpr()
}

func (r *tloReader) typeExpr() {
	if r.err != nil {
		return
	}
	switch r.expect("tls.typeVar", "tls.array", "tls.typeExpr") {
	case "tls.typeVar":
		r.i32()
		r.i32()
	case "tls.array":
		r.natExpr()
		n := int(r.u32())
		for i := 0; i < n && r.err == nil; i++ {
			r.arg()
		}
	case "tls.typeExpr":
		r.i32()
		r.i32()
		n := int(r.u32())
		for i := 0; i < n && r.err == nil; i++ {
			switch r.expect("tls.exprType", "tls.exprNat") {
			case "tls.exprType":
				r.typeExpr()
			case "tls.exprNat":
				r.natExpr()
			}
		}
	}
}

func (r *tloReader) comb() tloComb {
	kind := r.expect("tls.combinator", "tls.combinator_v4")
	c := tloComb{Name: r.i32(), ID: r.str(), TypeName: r.i32()}
	switch r.expect("tls.combinatorLeftBuiltin", "tls.combinatorLeft") {
	case "tls.combinatorLeftBuiltin":
		c.Args = -1
	case "tls.combinatorLeft":
		n := int(r.u32())
		c.Args = n
		for i := 0; i < n && r.err == nil; i++ {
			r.arg()
		}
	}
	r.expect("tls.combinatorRight")
	r.typeExpr()
	if kind == "tls.combinator_v4" {
		r.i32()
	}
	return c
}

func tlsTags() (map[string]uint32, error) {
	b, err := os.ReadFile("/repo/internal/tlast/tls.tl")
	if err != nil {
		return nil, err
	}
	tl, err := tlast.ParseTLFile(string(b), "tls.tl", tlast.LexerOptions{LexerLanguage: tlast.TL1})
	if err != nil {
		return nil, err
	}
	out := map[string]uint32{}
	for _, c := range tl.Combinators() {
		out[c.Construct.Name.String()] = c.Crc32()
	}
	return out, nil
}

func readTLO(b []byte) (*tloSchema, error) {
	tags, err := tlsTags()
	if err != nil {
		return nil, err
	}
	r := &tloReader{b: b, tags: tags}
	r.expect("tls.schema_v2", "tls.schema_v3", "tls.schema_v4")
	s := &tloSchema{Version: r.i32(), Date: r.i32()}
	n := int(r.u32())
	for i := 0; i < n && r.err == nil; i++ {
		r.expect("tls.type")
		s.Types = append(s.Types, tloType{Name: r.i32(), ID: r.str(), ConstructorsNum: r.i32(), Flags: r.i32(), Arity: r.i32(), ParamsType: r.i64()})
	}
	n = int(r.u32())
	for i := 0; i < n && r.err == nil; i++ {
		s.Constructors = append(s.Constructors, r.comb())
	}
	n = int(r.u32())
	for i := 0; i < n && r.err == nil; i++ {
		s.Functions = append(s.Functions, r.comb())
	}
	if r.err == nil && r.pos != len(b) {
		r.fail("%d bytes left after the schema", len(b)-r.pos)
	}
	return s, r.err
}
