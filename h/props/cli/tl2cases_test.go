package cli

import (
	"fmt"
	"os"
	"path/filepath"
	"strings"
	"testing"

	"github.com/VKCOM/tl/internal/tlast"
	"github.com/VKCOM/tl/verifh/pbt"
	"github.com/VKCOM/tl/verifh/schemagen"
	"pgregory.net/rapid"
)

// TL2 inputs for C14 and C24. A semantically valid TL2 schema is obtained the way users get one: a generated TL1 schema
// is migrated with the tl2gen of the tree (--language=tl2migration, whitelist *); the resulting .tl2 file is then edited
// on its AST (tlast) and printed again. (Added after a third round of seeded changes showed that neither check ever fed
// a TL2 file to the generator.)

type tl2Edit struct {
	Shuffle   uint64 `json:"shuffle_seed"`    // 0: keep the order of declarations
	EmptyFns  int    `json:"empty_result_fns"` // functions "name#magic x:int32 => ;" appended (then shuffled with the rest)
	DropTrue  bool   `json:"drop_true"`        // remove "true = ;" when nothing refers to it
	Plant     string `json:"plant,omitempty"`  // C24: none | type-type | type-function
	A, B      int
}

func migrateToTL2(s *schemagen.Schema) (dir string, err error) {
	dir, err = os.MkdirTemp(workDir(), "tl2case-")
	if err != nil {
		return "", err
	}
	if err = os.WriteFile(filepath.Join(dir, "schema.tl"), []byte(s.Text(schemagen.Layout{})), 0o644); err != nil {
		return dir, err
	}
	if log, code := run("tl2gen", "--language=tl2migration", "--tl2WhiteList=*", filepath.Join(dir, "schema.tl")); code != 0 {
		return dir, fmt.Errorf("migration refused: %s", tailStr(log, 3))
	}
	return dir, nil
}

func refersTo(f *tlast.TL2File, name string) bool {
	found := false
	var walkRef func(t *tlast.TL2TypeRef)
	walkRef = func(t *tlast.TL2TypeRef) {
		if t.BracketType != nil {
			if t.BracketType.HasIndex && !t.BracketType.IndexType.IsNumber {
				walkRef(&t.BracketType.IndexType.Type)
			}
			walkRef(&t.BracketType.ArrayType)
			return
		}
		if t.SomeType.Name.Namespace == "" && t.SomeType.Name.Name == name {
			found = true
		}
		for i := range t.SomeType.Arguments {
			if !t.SomeType.Arguments[i].IsNumber {
				walkRef(&t.SomeType.Arguments[i].Type)
			}
		}
	}
	fields := func(fs []tlast.TL2Field) {
		for i := range fs {
			walkRef(&fs[i].Type)
		}
	}
	def := func(d *tlast.TL2TypeDefinition) {
		if d.IsTypeAlias {
			walkRef(&d.TypeAlias)
			return
		}
		fields(d.StructType.ConstructorFields)
		for i := range d.StructType.UnionType.Variants {
			v := &d.StructType.UnionType.Variants[i]
			if v.IsTypeAlias {
				walkRef(&v.TypeAlias)
			}
			fields(v.Fields)
		}
	}
	for i := range f.Combinators {
		c := &f.Combinators[i]
		if c.IsFunction {
			fields(c.FuncDecl.Arguments)
			def(&c.FuncDecl.ReturnType)
		} else {
			def(&c.TypeDecl.Type)
		}
	}
	return found
}

// editTL2 applies e to the migrated file; planted reports whether a magic collision was planted.
func editTL2(path string, e tl2Edit) (planted string, err error) {
	b, err := os.ReadFile(path)
	if err != nil {
		return "", err
	}
	f, err := tlast.ParseTL2File(string(b), path, tlast.LexerOptions{LexerLanguage: tlast.TL2})
	if err != nil {
		return "", err
	}
	for k := 0; k < e.EmptyFns; k++ {
		f.Combinators = append(f.Combinators, tlast.TL2Combinator{IsFunction: true, FuncDecl: tlast.TL2FuncDeclaration{
			Name: tlast.TL2TypeName{Namespace: "zz", Name: fmt.Sprintf("emptyResult%d", k)}, Magic: 0x7e000001 + uint32(k)*977,
			Arguments: []tlast.TL2Field{{Name: "x", Type: tlast.TL2TypeRef{SomeType: tlast.TL2TypeApplication{Name: tlast.TL2TypeName{Name: "int32"}}}}},
		}})
	}
	if e.DropTrue && !refersTo(&f, "true") {
		for i := range f.Combinators {
			c := &f.Combinators[i]
			if !c.IsFunction && c.TypeDecl.Name.Namespace == "" && c.TypeDecl.Name.Name == "true" {
				f.Combinators = append(f.Combinators[:i:i], f.Combinators[i+1:]...)
				break
			}
		}
	}
	if e.Shuffle != 0 {
		x := e.Shuffle
		for i := len(f.Combinators) - 1; i > 0; i-- {
			x = x*6364136223846793005 + 1442695040888963407
			j := int((x >> 33) % uint64(i+1))
			f.Combinators[i], f.Combinators[j] = f.Combinators[j], f.Combinators[i]
		}
	}
	var types, funcs []int
	for i := range f.Combinators {
		if f.Combinators[i].IsFunction {
			funcs = append(funcs, i)
		} else if !f.Combinators[i].TypeDecl.Type.IsTypeAlias {
			types = append(types, i)
		}
	}
	switch e.Plant {
	case "type-type":
		if len(types) >= 2 {
			i, j := types[e.A%len(types)], types[e.B%len(types)]
			if i == j {
				j = types[(e.B+1)%len(types)]
			}
			if i != j {
				f.Combinators[i].TypeDecl.Magic, f.Combinators[j].TypeDecl.Magic = 0x5eed0001, 0x5eed0001
				planted = fmt.Sprintf("TL2 types %s and %s share magic 5eed0001", f.Combinators[i].TypeDecl.Name, f.Combinators[j].TypeDecl.Name)
			}
		}
	case "type-function":
		if len(types) >= 1 && len(funcs) >= 1 {
			i, j := types[e.A%len(types)], funcs[e.B%len(funcs)]
			f.Combinators[i].TypeDecl.Magic = f.Combinators[j].FuncDecl.Magic
			planted = fmt.Sprintf("TL2 type %s has the magic %08x of function %s", f.Combinators[i].TypeDecl.Name, f.Combinators[j].FuncDecl.Magic, f.Combinators[j].FuncDecl.Name)
		}
	case "function-function":
		if len(funcs) >= 2 {
			i, j := funcs[e.A%len(funcs)], funcs[e.B%len(funcs)]
			if i == j {
				j = funcs[(e.B+1)%len(funcs)]
			}
			if i != j {
				f.Combinators[j].FuncDecl.Magic = f.Combinators[i].FuncDecl.Magic
				planted = fmt.Sprintf("TL2 functions %s and %s share magic %08x", f.Combinators[i].FuncDecl.Name, f.Combinators[j].FuncDecl.Name, f.Combinators[i].FuncDecl.Magic)
			}
		}
	case "zero-type", "zero-function":
		// an explicit magic 00000000: the AST has no spelling for it (0 = no magic), so a marker value is printed and
		// replaced in the text
		const marker = 0x5eed0000
		if e.Plant == "zero-type" && len(types) >= 1 {
			i := types[e.A%len(types)]
			f.Combinators[i].TypeDecl.Magic = marker
			planted = fmt.Sprintf("TL2 type %s has the explicit magic 00000000", f.Combinators[i].TypeDecl.Name)
		} else if e.Plant == "zero-function" && len(funcs) >= 1 {
			j := funcs[e.B%len(funcs)]
			f.Combinators[j].FuncDecl.Magic = marker
			planted = fmt.Sprintf("TL2 function %s has the explicit magic 00000000", f.Combinators[j].FuncDecl.Name)
		}
		if planted != "" {
			text := f.String()
			if !strings.Contains(text, "#5eed0000") {
				return "", os.WriteFile(path, []byte(text), 0o644)
			}
			return planted, os.WriteFile(path, []byte(strings.Replace(text, "#5eed0000", "#00000000", 1)), 0o644)
		}
	}
	return planted, os.WriteFile(path, []byte(f.String()), 0o644)
}

type tl2Case struct {
	Schema *schemagen.Schema `json:"schema"`
	Edit   tl2Edit           `json:"tl2_edit"`
	Args   []string          `json:"generator_args"`
}

func genTL2Case(rt *rapid.T, plants []string) tl2Case {
	o := schemagen.DefaultOpts()
	o.MinCombs, o.MaxCombs = 4, 14
	c := tl2Case{Schema: schemagen.Generate(rt, o)}
	c.Edit = tl2Edit{EmptyFns: rapid.IntRange(0, 2).Draw(rt, "emptyfns"), DropTrue: rapid.Bool().Draw(rt, "droptrue"), A: rapid.IntRange(0, 50).Draw(rt, "a"), B: rapid.IntRange(0, 50).Draw(rt, "b")}
	if rapid.Bool().Draw(rt, "shuffle") {
		c.Edit.Shuffle = rapid.Uint64Range(1, 1<<40).Draw(rt, "shuffleseed")
	}
	c.Edit.Plant = rapid.SampledFrom(plants).Draw(rt, "plant")
	if rapid.Bool().Draw(rt, "split") {
		c.Args = append(c.Args, "--split-internal")
	}
	if rapid.Bool().Draw(rt, "random") {
		c.Args = append(c.Args, "--generateRandomCode")
	}
	return c
}

func (c tl2Case) files() (dir string, files []string, planted string, res *pbt.Result) {
	dir, err := migrateToTL2(c.Schema)
	if err != nil {
		if dir != "" {
			os.RemoveAll(dir)
		}
		return "", nil, "", &pbt.Result{Classes: []string{"migration-refused"}}
	}
	tl2 := filepath.Join(dir, "schema.tl2")
	if _, err := os.Stat(tl2); err != nil {
		os.RemoveAll(dir)
		return "", nil, "", &pbt.Result{Classes: []string{"nothing-migrated"}}
	}
	planted, err = editTL2(tl2, c.Edit)
	if err != nil {
		os.RemoveAll(dir)
		return "", nil, "", &pbt.Result{Err: fmt.Errorf("harness: cannot edit the migrated TL2 file: %v", err)}
	}
	return dir, []string{filepath.Join(dir, "schema.tl"), tl2}, planted, nil
}

// ---- C14 on TL2 inputs -----------------------------------------------------------------------------------------

func checkC14TL2(c tl2Case) pbt.Result {
	dir, files, _, bad := c.files()
	if bad != nil {
		return *bad
	}
	defer os.RemoveAll(dir)
	root, mod, err := scratchModule("c14t")
	if err != nil {
		pbt.Inconclusive("scratch module: %v", err)
	}
	defer os.RemoveAll(root)
	outdir := filepath.Join(mod, "g")
	args := append([]string{"--language=go", "--outdir=" + outdir, "--pkgPath=github.com/VKCOM/tl/verifrun/g/tl", "--basicPkgPath=github.com/VKCOM/tl/pkg/basictl", "--copyrightPath=/repo/COPYRIGHT", "--tl2WhiteList=*"}, c.Args...)
	log, code := run("tl2gen", append(args, files...)...)
	tl2text, _ := os.ReadFile(files[1])
	if strings.Contains(log, "panic:") || strings.Contains(log, "goroutine ") || code > 1 || code < 0 {
		return pbt.Fail("tl2gen crashed (exit %d) on a TL2 schema (options %v):\n%s\n--- schema.tl2 ---\n%s", code, c.Args, tailStr(log, 14), tl2text)
	}
	if code != 0 {
		if strings.TrimSpace(log) == "" {
			return pbt.Fail("tl2gen rejects the TL2 schema without a message")
		}
		return pbt.Result{NonTrivial: true, Classes: []string{"tl2-rejected"}}
	}
	out, err := goBuild(mod, "g")
	if err != nil {
		return pbt.Fail("tl2gen accepted the TL2 schema (options %v) but the generated code does not build:\n%s\n--- schema.tl2 ---\n%s", c.Args, tailStr(out, 12), tl2text)
	}
	return pbt.Result{NonTrivial: true, Classes: []string{"tl2-built"}}
}

func TestC14BuildsTL2(t *testing.T) {
	pbt.Run(t, "generate-and-build-tl2", pbt.Scale(16, 200), func(rt *rapid.T) tl2Case { return genTL2Case(rt, []string{"none"}) }, checkC14TL2)
}

// ---- C24 on TL2 inputs -----------------------------------------------------------------------------------------

func checkC24TL2(c tl2Case) pbt.Result {
	dir, files, planted, bad := c.files()
	if bad != nil {
		return *bad
	}
	defer os.RemoveAll(dir)
	log, code := run("tl2gen", append([]string{"--language=lint", "--tl2WhiteList=*"}, files...)...)
	if strings.Contains(log, "panic:") || strings.Contains(log, "goroutine ") {
		tl2text, _ := os.ReadFile(files[1])
		return pbt.Fail("tl2gen crashed on the TL2 schema:\n%s\n--- schema.tl2 ---\n%s", tailStr(log, 12), tl2text)
	}
	cls := []string{"tl2-plant-" + c.Edit.Plant}
	if code == 0 {
		if planted != "" {
			tl2text, _ := os.ReadFile(files[1])
			return pbt.Fail("tl2gen accepts a schema whose explicit TL2 magics are not unique and non-zero: %s\n--- schema.tl2 ---\n%s", planted, tl2text)
		}
		return pbt.Result{Classes: append(cls, "tl2gen-accepts")}
	}
	if strings.TrimSpace(log) == "" {
		return pbt.Fail("tl2gen rejects the schema without a message (exit %d)", code)
	}
	return pbt.Result{NonTrivial: planted != "", Classes: append(cls, "tl2gen-rejects")}
}

func TestC24TagsTL2(t *testing.T) {
	pbt.Run(t, "unique-tags-tl2", pbt.Scale(150, 6000), func(rt *rapid.T) tl2Case {
		c := genTL2Case(rt, []string{"none", "type-type", "type-type", "type-function", "type-function", "function-function", "zero-type", "zero-function"})
		c.Args = nil
		return c
	}, checkC24TL2)
}
