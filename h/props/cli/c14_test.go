package cli

import (
	"bytes"
	"crypto/sha256"
	"encoding/json"
	"fmt"
	"io/fs"
	"os"
	"os/exec"
	"path/filepath"
	"sort"
	"strings"
	"sync/atomic"
	"testing"

	"github.com/VKCOM/tl/verifh/pbt"
	"github.com/VKCOM/tl/verifh/schemagen"
	"pgregory.net/rapid"
)

// ---- C14: every accepted schema yields Go code that builds; the generator never panics ------------------------

type genCase struct {
	Schema  *schemagen.Schema `json:"schema"`
	Layout  schemagen.Layout  `json:"layout"`
	Edit    string            `json:"edit"` // none or a structured edit that may make the schema invalid
	EditAt  int               `json:"edit_at"`
	Args    []string          `json:"generator_args"`
	Text    string            `json:"text,omitempty"` // literal schema (sentinels)
	TextTL2 bool              `json:"text_is_tl2,omitempty"`
}

var hostileFieldNames = []string{"reset", "string", "read", "write", "type", "range", "func", "item", "w", "err", "tl2mask0", "fillRandom", "readJSON", "unmarshalJSON", "writeTL2", "readTL1", "tLName", "tLTag"}

func genGenCase(rt *rapid.T) genCase {
	o := schemagen.DefaultOpts()
	o.MaxCombs = 18
	c := genCase{Schema: schemagen.Generate(rt, o), Layout: schemagen.Layout{Seed: rapid.Uint64().Draw(rt, "layout"), Level: 1}}
	c.Edit = rapid.SampledFrom([]string{"none", "none", "none", "dup-name", "undefined-type", "forward-mask", "case-twin", "bare-cycle", "drop-template-arg", "hostile-field-name", "hostile-field-name", "same-go-name-across-namespaces", "func-as-type", "suffix-collision", "suffix-collision"}).Draw(rt, "edit")
	c.EditAt = rapid.IntRange(0, 1000).Draw(rt, "at")
	if rapid.Bool().Draw(rt, "split") {
		c.Args = append(c.Args, "--split-internal")
	}
	switch rapid.IntRange(0, 2).Draw(rt, "tl2") {
	case 1:
		c.Args = append(c.Args, "--tl2WhiteList=*")
	case 2:
		c.Args = append(c.Args, "--tl2WhiteList=a.,svc.")
	}
	switch rapid.IntRange(0, 2).Draw(rt, "bytes") {
	case 1:
		c.Args = append(c.Args, "--generateByteVersions=*")
	case 2:
		c.Args = append(c.Args, "--generateByteVersions=a.,b.")
	}
	if rapid.Bool().Draw(rt, "random") {
		c.Args = append(c.Args, "--generateRandomCode")
	}
	if rapid.IntRange(0, 3).Draw(rt, "rpc") == 0 {
		c.Args = append(c.Args, "--generateRPCCode")
	}
	if rapid.IntRange(0, 3).Draw(rt, "sanity") == 0 {
		c.Args = append(c.Args, "--checkLengthSanity=false")
	}
	return c
}

func applyEdit(s *schemagen.Schema, edit string, at int) (*schemagen.Schema, bool) {
	b, _ := json.Marshal(s)
	var out schemagen.Schema
	json.Unmarshal(b, &out)
	n := len(out.Combs)
	if n == 0 || edit == "none" {
		return &out, false
	}
	c := out.Combs[at%n]
	other := out.Combs[(at/7+1)%n]
	switch edit {
	case "dup-name":
		if other != c {
			other.Name = c.Name
		}
	case "undefined-type":
		c.Fields = append(c.Fields, schemagen.Field{Name: "undef", Type: schemagen.TypeExpr{Kind: "ref", Name: "no.SuchType"}})
	case "forward-mask":
		c.Fields = append([]schemagen.Field{{Name: "early", Mask: &schemagen.MaskRef{Src: "latemask", Bit: 0}, Type: schemagen.TypeExpr{Kind: "ref", Name: "int"}}}, c.Fields...)
		c.Fields = append(c.Fields, schemagen.Field{Name: "latemask", Type: schemagen.TypeExpr{Kind: "prim", Name: "#"}})
	case "case-twin": // a second constructor whose name differs only by case
		if !c.IsFunc && len(c.Params) == 0 {
			twin := *c
			i := strings.LastIndex(twin.Name, ".") + 1
			twin.Name = twin.Name[:i] + strings.ToLower(twin.Name[i:i+1]) + strings.ToUpper(twin.Name[i+1:i+2]) + twin.Name[i+2:]
			twin.ResultType = twin.ResultType + "X"
			twin.Tag = nil
			if twin.Name != c.Name {
				out.Combs = append([]*schemagen.Comb{&twin}, out.Combs...)
			}
		}
	case "bare-cycle":
		if !c.IsFunc && len(c.Params) == 0 {
			c.Fields = append(c.Fields, schemagen.Field{Name: "selfbare", Type: schemagen.TypeExpr{Kind: "ref", Name: c.Name}})
		}
	case "drop-template-arg":
		for i := range c.Fields {
			if len(c.Fields[i].Type.Args) > 0 {
				c.Fields[i].Type.Args = c.Fields[i].Type.Args[:len(c.Fields[i].Type.Args)-1]
				break
			}
		}
	case "hostile-field-name":
		if len(c.Fields) > 0 {
			f := &c.Fields[at%len(c.Fields)]
			if f.Type.Kind != "prim" || f.Type.Name != "#" { // renaming a mask/size field would need its users renamed too
				f.Name = hostileFieldNames[(at/3)%len(hostileFieldNames)]
				for i := range c.Fields {
					if &c.Fields[i] != f && c.Fields[i].Name == f.Name {
						f.Name += "2"
					}
				}
			}
		}
	case "suffix-collision": // a reserved name gets a numeric suffix: the suffixed name must not collide with a sibling
		base := []string{"write", "read", "writeTL2", "readTL2"}[at%4]
		if !c.IsFunc || true {
			c.Fields = append(c.Fields, schemagen.Field{Name: base, Type: schemagen.TypeExpr{Kind: "ref", Name: "int"}}, schemagen.Field{Name: base + "0", Type: schemagen.TypeExpr{Kind: "ref", Name: "string"}})
			if at%3 == 0 {
				c.Fields = append(c.Fields, schemagen.Field{Name: base + "1", Type: schemagen.TypeExpr{Kind: "ref", Name: "long"}})
			}
		}
	case "same-go-name-across-namespaces":
		if !c.IsFunc && len(c.Params) == 0 && !strings.Contains(c.Name, ".") {
			twin := *c
			twin.Name, twin.ResultType, twin.Tag = "zz."+c.Name, "zz."+c.ResultType, nil
			out.Combs = append(out.Combs[:0:0], append([]*schemagen.Comb{&twin}, out.Combs...)...)
		}
	case "func-as-type":
		for _, f := range out.Combs {
			if f.IsFunc && !c.IsFunc {
				c.Fields = append(c.Fields, schemagen.Field{Name: "fn", Type: schemagen.TypeExpr{Kind: "ref", Name: f.Name}})
				break
			}
		}
	}
	return &out, true
}

func treeHash(root string) (string, int) {
	h := sha256.New()
	n := 0
	var paths []string
	filepath.WalkDir(root, func(p string, d fs.DirEntry, err error) error {
		if err == nil && !d.IsDir() {
			paths = append(paths, p)
		}
		return nil
	})
	sort.Strings(paths)
	for _, p := range paths {
		b, _ := os.ReadFile(p)
		fmt.Fprintf(h, "%s %d\n", strings.TrimPrefix(p, root), len(b))
		h.Write(b)
		n++
	}
	return fmt.Sprintf("%x", h.Sum(nil)), n
}

var caseSeq atomic.Int64

// scratchModule creates <work>/<name>/{pkg/basictl, verifrun/go.mod} and returns the module directory.
func scratchModule(name string) (root, mod string, err error) {
	root = filepath.Join(workDir(), fmt.Sprintf("%s-%d-%d", name, os.Getpid(), caseSeq.Add(1)))
	mod = filepath.Join(root, "verifrun")
	if err = os.MkdirAll(filepath.Join(root, "pkg", "basictl"), 0o755); err != nil {
		return
	}
	if err = os.MkdirAll(mod, 0o755); err != nil {
		return
	}
	gomod := "module github.com/VKCOM/tl/verifrun\n\ngo 1.24.0\n\nrequire github.com/VKCOM/tl v0.0.0\n\nreplace github.com/VKCOM/tl => /repo\n"
	if err = os.WriteFile(filepath.Join(mod, "go.mod"), []byte(gomod), 0o644); err != nil {
		return
	}
	sum, _ := os.ReadFile("/repo/go.sum")
	err = os.WriteFile(filepath.Join(mod, "go.sum"), sum, 0o644)
	return
}

func goBuild(mod, pkg string) (string, error) {
	gobin := os.Getenv("VERIF_GO")
	if gobin == "" {
		gobin = "go"
	}
	cmd := exec.Command(gobin, "build", "-o", os.DevNull, "./"+pkg+"/...")
	cmd.Dir = mod
	var buf bytes.Buffer
	cmd.Stdout, cmd.Stderr = &buf, &buf
	err := cmd.Run()
	return buf.String(), err
}

// isKnownCompileFailure recognises finding F7 (a field named like a generated method / local identifier).
func isF7(out string) bool {
	return strings.Contains(out, "field and method with the same name") || strings.Contains(out, "redeclared") && strings.Contains(out, "method")
}

func checkC14(c genCase) pbt.Result {
	root, mod, err := scratchModule("c14")
	if err != nil {
		pbt.Inconclusive("scratch module: %v", err)
	}
	defer os.RemoveAll(root)
	s, edited := c.Schema, false
	text := c.Text
	if text == "" {
		s, edited = applyEdit(c.Schema, c.Edit, c.EditAt)
		text = s.Text(c.Layout)
	}
	schemaFile := filepath.Join(root, "schema.tl")
	if c.TextTL2 { // a literal TL2 schema (sentinels of findings in the TL2-origin generator paths)
		schemaFile = filepath.Join(root, "schema.tl2")
	}
	os.WriteFile(schemaFile, []byte(text), 0o644)
	outdir := filepath.Join(mod, "g")
	args := append([]string{"--language=go", "--outdir=" + outdir, "--pkgPath=github.com/VKCOM/tl/verifrun/g/tl", "--basicPkgPath=github.com/VKCOM/tl/pkg/basictl", "--copyrightPath=/repo/COPYRIGHT"}, c.Args...)
	log, code := run("tl2gen", append(args, schemaFile)...)
	cls := []string{"edit-" + c.Edit}
	if strings.Contains(log, "panic:") || strings.Contains(log, "goroutine ") || code > 1 || code < 0 {
		return pbt.Fail("tl2gen crashed (exit %d) on a schema (edit %s, options %v):\n%s", code, c.Edit, c.Args, tailStr(log, 14))
	}
	if code != 0 {
		if strings.TrimSpace(log) == "" {
			return pbt.Fail("tl2gen rejects the schema without a message")
		}
		if _, n := treeHash(outdir); n != 0 {
			return pbt.Fail("tl2gen rejected the schema (exit %d) but left %d files in the output directory", code, n)
		}
		return pbt.Result{NonTrivial: edited, Classes: append(cls, "rejected")}
	}
	if strings.Contains(log, "will not compile") {
		return pbt.Fail("tl2gen reports success but its formatter says the code will not compile:\n%s", tailStr(log, 10))
	}
	out, err := goBuild(mod, "g")
	if err != nil {
		if pbt.Known("F7") && !pbt.Replaying() && c.Edit == "hostile-field-name" && isF7(out) {
			return pbt.Result{Excluded: "F7"}
		}
		if pbt.Known("F53") && !pbt.Replaying() && c.Edit == "case-twin" && strings.Contains(out, "case-insensitive import collision") && strings.Contains(strings.Join(c.Args, " "), "--split-internal") {
			return pbt.Result{Excluded: "F53"} // what the repair of F44 does not cover: twin packages whose file names differ
		}
		return pbt.Fail("tl2gen accepted the schema (edit %s, options %v) but the generated code does not build:\n%s", c.Edit, c.Args, tailStr(out, 12))
	}
	_, files := treeHash(outdir)
	pbt.InfoAdd("generated_files_built", int64(files))
	return pbt.Result{NonTrivial: s != nil && len(s.Combs) >= 6, Classes: append(cls, "built")}
}

func TestC14Builds(t *testing.T) {
	pbt.Run(t, "generate-and-build", pbt.Scale(24, 640), genGenCase, checkC14) // about 25 s per generated-and-built schema and shard
}
