package cli

import (
	"fmt"
	"os"
	"os/exec"
	"path/filepath"
	"regexp"
	"strconv"
	"strings"
	"testing"
	"time"

	"github.com/VKCOM/tl/verifh/pbt"
	"github.com/VKCOM/tl/verifh/schemagen"
	"pgregory.net/rapid"
)

// ---- C15: code generation is deterministic --------------------------------------------------------------------

type detCase struct {
	Schema *schemagen.Schema `json:"schema,omitempty"`
	Layout schemagen.Layout  `json:"layout"`
	Parts  int               `json:"parts"` // the schema is written as this many files
	Repo   int               `json:"repo_set"` // >0: use a repository schema set instead
	Lang   string            `json:"language"`
	Procs  []int             `json:"gomaxprocs"`
	Args   []string          `json:"generator_args"`
	Dir    bool              `json:"second_run_lists_directory"`
}

var languages = []string{"go", "go", "go-split", "canonical", "tlo", "tljson.html", "php", "cpp", "tlgen-php"}

func genDetCase(rt *rapid.T) detCase {
	c := detCase{Lang: rapid.SampledFrom(languages).Draw(rt, "lang"), Parts: rapid.IntRange(1, 3).Draw(rt, "parts"), Dir: rapid.Bool().Draw(rt, "dir")}
	c.Procs = []int{rapid.SampledFrom([]int{1, 2, 3}).Draw(rt, "p1"), rapid.SampledFrom([]int{3, 7, 16}).Draw(rt, "p2")}
	if rapid.IntRange(0, 5).Draw(rt, "repo") == 0 {
		c.Repo = 1 + rapid.IntRange(0, len(repoSets)-1).Draw(rt, "set")
	} else {
		o := schemagen.DefaultOpts()
		o.MinCombs = 12
		o.MaskForward = true
		c.Schema = schemagen.Generate(rt, o)
		c.Layout = schemagen.Layout{Seed: rapid.Uint64().Draw(rt, "layout"), Level: 1}
	}
	if strings.HasPrefix(c.Lang, "go") {
		if rapid.Bool().Draw(rt, "tl2") {
			c.Args = append(c.Args, "--tl2WhiteList=*")
		}
		if rapid.Bool().Draw(rt, "bytes") {
			c.Args = append(c.Args, "--generateByteVersions=*")
		}
		if rapid.Bool().Draw(rt, "rnd") {
			c.Args = append(c.Args, "--generateRandomCode")
		}
	}
	return c
}

// writeParts writes the schema as several files into dir/schema/ and returns them (types first, functions last).
func writeParts(dir string, s *schemagen.Schema, l schemagen.Layout, parts int) ([]string, error) {
	sd := filepath.Join(dir, "schema")
	os.MkdirAll(sd, 0o755)
	var types, funcs []*schemagen.Comb
	for _, c := range s.Combs {
		if c.IsFunc {
			funcs = append(funcs, c)
		} else {
			types = append(types, c)
		}
	}
	if parts < 1 {
		parts = 1
	}
	var files []string
	for p := 0; p < parts; p++ {
		lo, hi := p*len(types)/parts, (p+1)*len(types)/parts
		sub := &schemagen.Schema{Combs: append([]*schemagen.Comb{}, types[lo:hi]...)}
		if p == parts-1 {
			sub.Combs = append(sub.Combs, funcs...)
		}
		text := sub.Text(l)
		if p > 0 {
			text = strings.TrimPrefix(text, schemagen.Prelude)
		}
		f := filepath.Join(sd, fmt.Sprintf("%c_part%d.tl", 'c'-byte(p), p)) // names sort differently from creation order
		if err := os.WriteFile(f, []byte(text), 0o644); err != nil {
			return nil, err
		}
		files = append(files, f)
	}
	return files, nil
}

func runGen(lang string, procs int, out string, extra []string, inputs []string) (string, int) {
	var tool string
	var args []string
	switch lang {
	case "go", "go-split":
		tool = "tl2gen"
		args = []string{"--language=go", "--outdir=" + filepath.Join(out, "verifrun", "g"), "--pkgPath=github.com/VKCOM/tl/verifrun/g/tl", "--basicPkgPath=github.com/VKCOM/tl/pkg/basictl", "--copyrightPath=/repo/COPYRIGHT"}
		if lang == "go-split" {
			args = append(args, "--split-internal")
		}
	case "canonical":
		tool, args = "tl2gen", []string{"--language=canonical", "--outfile=" + filepath.Join(out, "canonical.tl")}
	case "tlo":
		tool, args = "tl2gen", []string{"--language=tlo", "--outfile=" + filepath.Join(out, "schema.tlo"), "--schemaTimestamp=1234567"}
	case "tljson.html":
		tool, args = "tl2gen", []string{"--language=tljson.html", "--outfile=" + filepath.Join(out, "tljson.html"), "--schemaTimestamp=1234567"}
	case "php":
		tool, args = "tl2gen", []string{"--language=php", "--outdir=" + filepath.Join(out, "php"), "--php-use-builtin-data-providers", "--php-serialization-bodies"}
	case "cpp":
		tool, args = "tlgen", []string{"--language=cpp", "--outdir=" + filepath.Join(out, "cpp"), "--cpp-generate-meta", "--cpp-generate-factory"}
	case "tlgen-php":
		tool, args = "tlgen", []string{"--language=php", "--outdir=" + filepath.Join(out, "php1")}
	}
	os.MkdirAll(filepath.Join(out, "pkg", "basictl"), 0o755)
	os.MkdirAll(filepath.Join(out, "verifrun"), 0o755)
	args = append(append(args, extra...), inputs...)
	cmd := exec.Command(os.Getenv("VERIF_TOOL_"+tool), args...)
	cmd.Env = append(os.Environ(), "GOMAXPROCS="+strconv.Itoa(procs))
	b, err := cmd.CombinedOutput()
	code := 0
	if err != nil {
		code = 1
		if ee, ok := err.(*exec.ExitError); ok {
			code = ee.ExitCode()
		}
	}
	return string(b), code
}

func checkC15(c detCase) pbt.Result {
	dir, err := os.MkdirTemp(workDir(), "c15")
	if err != nil {
		pbt.Inconclusive("%v", err)
	}
	defer os.RemoveAll(dir)
	var files []string
	if c.Repo > 0 {
		// copy so that a directory can be listed instead of files
		sd := filepath.Join(dir, "schema")
		os.MkdirAll(sd, 0o755)
		for _, f := range repoSets[c.Repo-1] {
			b, _ := os.ReadFile(f)
			dst := filepath.Join(sd, filepath.Base(f))
			os.WriteFile(dst, b, 0o644)
			files = append(files, dst)
		}
	} else if files, err = writeParts(dir, c.Schema, c.Layout, c.Parts); err != nil {
		pbt.Inconclusive("%v", err)
	}
	out1, out2 := filepath.Join(dir, "run1"), filepath.Join(dir, "run2")
	log1, code1 := runGen(c.Lang, c.Procs[0], out1, c.Args, files)
	inputs2 := make([]string, len(files))
	for i := range files {
		inputs2[len(files)-1-i] = files[i] // reversed listing order
	}
	if c.Dir {
		inputs2 = []string{filepath.Join(dir, "schema")} // the directory instead of its files
	}
	log2, code2 := runGen(c.Lang, c.Procs[1], out2, c.Args, inputs2)
	if code1 != code2 {
		return pbt.Fail("%s generation: exit %d with GOMAXPROCS=%d and inputs %v, exit %d with GOMAXPROCS=%d and inputs %v\n%s\n%s", c.Lang, code1, c.Procs[0], files, code2, c.Procs[1], inputs2, tailStr(log1, 5), tailStr(log2, 5))
	}
	if code1 != 0 {
		if strings.Contains(log1, "panic:") && c.Lang != "php" && c.Lang != "tlgen-php" && c.Lang != "cpp" {
			return pbt.Fail("%s generation crashed:\n%s", c.Lang, tailStr(log1, 12))
		}
		return pbt.Result{Classes: []string{"lang-" + c.Lang, "rejected"}}
	}
	h1, n1 := treeHash(out1)
	h2, n2 := treeHash(out2)
	if h1 != h2 {
		return pbt.Fail("%s generation is not deterministic: GOMAXPROCS=%d inputs %v and GOMAXPROCS=%d inputs %v give different output (%d / %d files): %s", c.Lang, c.Procs[0], files, c.Procs[1], inputs2, n1, n2, firstTreeDiff(out1, out2))
	}
	// a third run in a fresh process with the first configuration (map seeds differ between processes)
	out3 := filepath.Join(dir, "run3")
	if _, code3 := runGen(c.Lang, c.Procs[0], out3, c.Args, files); code3 == 0 {
		if h3, _ := treeHash(out3); h3 != h1 {
			return pbt.Fail("%s generation is not deterministic: two runs with identical arguments differ: %s", c.Lang, firstTreeDiff(out1, out3))
		}
	}
	cls := []string{"lang-" + c.Lang}
	if len(files) > 1 {
		cls = append(cls, "multi-file")
	}
	return pbt.Result{NonTrivial: n1 >= 1 && (len(files) >= 2 || n1 >= 20), Classes: cls}
}

func firstTreeDiff(a, b string) string {
	var diff string
	filepath.Walk(a, func(p string, info os.FileInfo, err error) error {
		if diff != "" || err != nil || info.IsDir() {
			return nil
		}
		rel := strings.TrimPrefix(p, a)
		x, _ := os.ReadFile(p)
		y, err2 := os.ReadFile(filepath.Join(b, rel))
		if err2 != nil {
			diff = rel + " exists only in the first run"
		} else if string(x) != string(y) {
			diff = rel + " differs: " + firstDiffLines(string(x), string(y))
		}
		return nil
	})
	if diff == "" {
		diff = "the second run has extra files"
	}
	return diff
}

func firstDiffLines(a, b string) string {
	la, lb := strings.Split(a, "\n"), strings.Split(b, "\n")
	for i := 0; i < len(la) && i < len(lb); i++ {
		if la[i] != lb[i] {
			return fmt.Sprintf("line %d: %q vs %q", i+1, clip(la[i]), clip(lb[i]))
		}
	}
	return fmt.Sprintf("%d vs %d lines", len(la), len(lb))
}

func clip(s string) string {
	if len(s) > 160 {
		return s[:160] + "..."
	}
	return s
}

func TestC15Deterministic(t *testing.T) {
	pbt.Run(t, "deterministic-generation", pbt.Scale(96, 6000), genDetCase, checkC15)
}

// TestC15Repository: every repository / kitchen-sink schema set with every Go layout and the C++ back end, each with
// all options on, so that the quick tier does not depend on the random cases happening to pick them.
func TestC15Repository(t *testing.T) {
	pbt.Enumerate(t, "deterministic-generation-repository", func(yield func(detCase) bool) {
		for set := range repoSets {
			for _, lang := range []string{"go-split", "go", "cpp"} {
				c := detCase{Repo: set + 1, Lang: lang, Procs: []int{2, 16}, Dir: set%2 == 0}
				if strings.HasPrefix(lang, "go") {
					c.Args = []string{"--tl2WhiteList=*", "--generateByteVersions=*", "--generateRandomCode"}
				}
				if !yield(c) {
					return
				}
			}
		}
	}, checkC15)
}

// ---- C16: output directory management ---------------------------------------------------------------------------

type outdirStep struct {
	Op     string `json:"op"` // gen foreign-file drop-marker stale-generated-file touch-nothing
	Schema int    `json:"schema"`
	Split  bool   `json:"split_internal"`
}

type outdirCase struct {
	Schemas   []*schemagen.Schema `json:"schemas"`
	Steps     []outdirStep        `json:"steps"`
	PreFilled bool                `json:"outdir_prefilled_without_marker"`
	PreDot    bool                `json:"prefilled_with_dot_named_files_only"`
	OwnBasic  bool                `json:"basictl_inside_outdir"`
}

func genOutdirCase(rt *rapid.T) outdirCase {
	c := outdirCase{PreFilled: rapid.IntRange(0, 5).Draw(rt, "prefilled") == 0, OwnBasic: rapid.Bool().Draw(rt, "ownbasic")}
	c.PreDot = c.PreFilled && rapid.Bool().Draw(rt, "predot")
	for i := 0; i < 3; i++ {
		o := schemagen.DefaultOpts()
		o.MinCombs, o.MaxCombs = 4, 12
		o.Namespaces = [][]string{{"", "a"}, {"b", "svc"}, {"", "zz", "a"}}[i]
		c.Schemas = append(c.Schemas, schemagen.Generate(rt, o))
	}
	n := rapid.IntRange(2, 6).Draw(rt, "steps")
	for i := 0; i < n; i++ {
		c.Steps = append(c.Steps, outdirStep{
			Op:     rapid.SampledFrom([]string{"gen", "gen", "gen", "foreign-file", "stale-generated-file", "drop-marker"}).Draw(rt, "op"),
			Schema: rapid.IntRange(0, 2).Draw(rt, "schema"),
			Split:  rapid.IntRange(0, 3).Draw(rt, "split") == 0,
		})
	}
	c.Steps = append(c.Steps, outdirStep{Op: "gen", Schema: rapid.IntRange(0, 2).Draw(rt, "last")})
	return c
}

var countsRe = regexp.MustCompile(`(\d+) target files did not change so were not touched, (\d+) written, (\d+) deleted`)

func fileMap(root string) map[string]string {
	m := map[string]string{}
	filepath.Walk(root, func(p string, info os.FileInfo, err error) error {
		if err == nil && !info.IsDir() {
			b, _ := os.ReadFile(p)
			m[strings.TrimPrefix(p, root)] = string(b)
		}
		return nil
	})
	return m
}

func emptyDirs(root string) []string {
	var out []string
	filepath.Walk(root, func(p string, info os.FileInfo, err error) error {
		if err == nil && info.IsDir() && p != root {
			if es, _ := os.ReadDir(p); len(es) == 0 {
				out = append(out, strings.TrimPrefix(p, root))
			}
		}
		return nil
	})
	return out
}

func checkC16(c outdirCase) pbt.Result {
	root, err := os.MkdirTemp(workDir(), "c16")
	if err != nil {
		pbt.Inconclusive("%v", err)
	}
	defer os.RemoveAll(root)
	sandbox := filepath.Join(root, "sandbox") // everything the generator may touch must stay inside this directory
	outdir := filepath.Join(sandbox, "verifrun", "g")
	os.MkdirAll(filepath.Join(sandbox, "pkg", "basictl"), 0o755)
	os.MkdirAll(filepath.Join(sandbox, "verifrun"), 0o755)
	os.WriteFile(filepath.Join(root, "witness.txt"), []byte("outside"), 0o644)
	schemaFiles := make([]string, len(c.Schemas))
	for i, s := range c.Schemas {
		schemaFiles[i] = filepath.Join(root, fmt.Sprintf("s%d.tl", i))
		os.WriteFile(schemaFiles[i], []byte(s.Text(schemagen.Layout{})), 0o644)
	}
	genArgs := func(out string, st outdirStep) []string {
		a := []string{"--language=go", "--outdir=" + out, "--pkgPath=github.com/VKCOM/tl/verifrun/g/tl", "--copyrightPath=/repo/COPYRIGHT"}
		if c.OwnBasic {
			a = append(a, "--basicPkgPath=")
		} else {
			a = append(a, "--basicPkgPath=github.com/VKCOM/tl/pkg/basictl")
		}
		if st.Split {
			a = append(a, "--split-internal")
		}
		return append(a, schemaFiles[st.Schema])
	}
	if c.PreFilled {
		os.MkdirAll(outdir, 0o755)
		if c.PreDot { // a directory that holds only dot-named entries is not empty either
			os.WriteFile(filepath.Join(outdir, ".gitignore"), []byte("*.tmp\n"), 0o644)
			os.MkdirAll(filepath.Join(outdir, ".git"), 0o755)
			os.WriteFile(filepath.Join(outdir, ".git", "HEAD"), []byte("ref: refs/heads/main\n"), 0o644)
		} else {
			os.WriteFile(filepath.Join(outdir, "precious.txt"), []byte("user data"), 0o644)
		}
		before := fileMap(sandbox)
		log, code := run("tl2gen", genArgs(outdir, c.Steps[len(c.Steps)-1])...)
		if code == 0 {
			return pbt.Fail("generation into a non-empty directory without the marker file was not refused:\n%s", tailStr(log, 5))
		}
		after := fileMap(sandbox)
		if fmt.Sprint(before) != fmt.Sprint(after) {
			return pbt.Fail("a refused generation modified the directory: before %d files, after %d files", len(before), len(after))
		}
		return pbt.Result{NonTrivial: true, Classes: []string{"refusal"}}
	}
	gens, distinct := 0, map[int]bool{}
	foreign := map[string]bool{}
	for i, st := range c.Steps {
		where := fmt.Sprintf("step %d (%s schema %d split=%v)", i, st.Op, st.Schema, st.Split)
		switch st.Op {
		case "foreign-file":
			if gens > 0 {
				p := filepath.Join(outdir, "internal", fmt.Sprintf("foreign%d.go", i))
				os.MkdirAll(filepath.Dir(p), 0o755)
				os.WriteFile(p, []byte("package internal\n// not generated\n"), 0o644)
				os.WriteFile(filepath.Join(outdir, fmt.Sprintf("LEFTOVER%d.txt", i)), []byte("x"), 0o644)
				if i%2 == 1 { // dot-named leftovers are leftovers too
					os.WriteFile(filepath.Join(outdir, fmt.Sprintf(".leftover%d", i)), []byte("x"), 0o644)
					os.MkdirAll(filepath.Join(outdir, fmt.Sprintf(".cache%d", i)), 0o755)
					os.WriteFile(filepath.Join(outdir, fmt.Sprintf(".cache%d", i), "entry"), []byte("x"), 0o644)
				}
			}
			continue
		case "stale-generated-file":
			if gens > 0 {
				os.MkdirAll(filepath.Join(outdir, "tlold"), 0o755)
				os.WriteFile(filepath.Join(outdir, "tlold", "tlold.go"), []byte("// Code generated by tl2gen; DO NOT EDIT.\npackage tlold\n"), 0o644)
			}
			continue
		case "drop-marker":
			if gens > 0 {
				os.Remove(filepath.Join(outdir, "meta", "meta.go"))
				before := fileMap(sandbox)
				_, code := run("tl2gen", genArgs(outdir, st)...)
				if code == 0 {
					return pbt.Fail("%s: the marker file meta/meta.go was removed from a non-empty output directory but generation was not refused", where)
				}
				if fmt.Sprint(before) != fmt.Sprint(fileMap(sandbox)) {
					return pbt.Fail("%s: a refused generation modified the directory", where)
				}
				// restore by regenerating into a clean directory
				os.RemoveAll(outdir)
				gens = 0
			}
			continue
		}
		// mtimes of files that will not change must stay
		type stamp struct {
			content string
			mod     time.Time
		}
		prev := map[string]stamp{}
		filepath.Walk(outdir, func(p string, info os.FileInfo, err error) error {
			if err == nil && !info.IsDir() {
				b, _ := os.ReadFile(p)
				prev[strings.TrimPrefix(p, outdir)] = stamp{string(b), info.ModTime()}
			}
			return nil
		})
		log, code := run("tl2gen", genArgs(outdir, st)...)
		if code != 0 {
			if strings.Contains(log, "panic:") {
				return pbt.Fail("%s: generator crashed:\n%s", where, tailStr(log, 10))
			}
			return pbt.Result{Classes: []string{"schema-rejected"}}
		}
		gens++
		distinct[st.Schema*2+map[bool]int{false: 0, true: 1}[st.Split]] = true
		// pristine generation of the same schema
		pristineRoot := filepath.Join(root, fmt.Sprintf("pristine%d", i))
		pristine := filepath.Join(pristineRoot, "verifrun", "g")
		os.MkdirAll(filepath.Join(pristineRoot, "pkg", "basictl"), 0o755)
		os.MkdirAll(filepath.Join(pristineRoot, "verifrun"), 0o755)
		if _, pc := run("tl2gen", genArgs(pristine, st)...); pc != 0 {
			pbt.Inconclusive("pristine generation failed")
		}
		want, got := fileMap(pristine), fileMap(outdir)
		for p, content := range want {
			if g, ok := got[p]; !ok {
				return pbt.Fail("%s: file %s of the generation is missing from the output directory", where, p)
			} else if g != content {
				return pbt.Fail("%s: file %s differs from a pristine generation of the same schema", where, p)
			}
		}
		for p := range got {
			if _, ok := want[p]; !ok {
				return pbt.Fail("%s: the output directory contains %s which is not part of this generation (stale or foreign file not removed); generator said: %s", where, p, lastLine(log))
			}
		}
		if ed := emptyDirs(outdir); len(ed) > 0 {
			return pbt.Fail("%s: empty directories left behind: %v", where, ed)
		}
		unchanged, rewritten := 0, 0
		filepath.Walk(outdir, func(p string, info os.FileInfo, err error) error {
			if err == nil && !info.IsDir() {
				rel := strings.TrimPrefix(p, outdir)
				if old, ok := prev[rel]; ok && old.content == want[rel] {
					unchanged++
					if !info.ModTime().Equal(old.mod) {
						rewritten++
					}
				}
			}
			return nil
		})
		if rewritten > 0 {
			return pbt.Fail("%s: %d files whose content did not change were rewritten (modification time changed)", where, rewritten)
		}
		if m := countsRe.FindStringSubmatch(log); m != nil && !c.OwnBasic {
			nt, _ := strconv.Atoi(m[1])
			wr, _ := strconv.Atoi(m[2])
			del, _ := strconv.Atoi(m[3])
			// the two runtime library files outside the outdir are part of the generator's count
			stale := 0
			for p := range prev {
				if _, ok := want[p]; !ok {
					stale++
				}
			}
			if del != stale {
				return pbt.Fail("%s: generator reports %d deleted files, %d files of the previous state were not part of this generation (line: %s)", where, del, stale, m[0])
			}
			if nt < unchanged || nt+wr < len(want) {
				return pbt.Fail("%s: generator reports %d untouched + %d written, the generation has %d files of which %d were unchanged (line: %s)", where, nt, wr, len(want), unchanged, m[0])
			}
		}
		// nothing outside the sandbox (except what pristine runs wrote) changed
		if b, _ := os.ReadFile(filepath.Join(root, "witness.txt")); string(b) != "outside" {
			return pbt.Fail("%s: a file outside the output directory was modified", where)
		}
		for p := range fileMap(sandbox) {
			if !strings.HasPrefix(p, "/verifrun/g/") && !strings.HasPrefix(p, "/pkg/basictl/") {
				return pbt.Fail("%s: the generator wrote %s outside the output directory and the runtime library location", where, p)
			}
		}
		_ = foreign
	}
	cls := []string{}
	if c.OwnBasic {
		cls = append(cls, "basictl-inside-outdir")
	}
	return pbt.Result{NonTrivial: gens >= 2 && len(distinct) >= 2, Classes: cls}
}

func lastLine(s string) string {
	l := strings.Split(strings.TrimSpace(s), "\n")
	return l[len(l)-1]
}

func TestC16Outdir(t *testing.T) {
	pbt.Run(t, "outdir-history", pbt.Scale(64, 3000), genOutdirCase, checkC16)
}
