package c36

import (
	"encoding/json"
	"fmt"
	"io"
	"log"
	"os"
	"strings"
	"testing"

	"github.com/VKCOM/tl/pkg/rpc/udp"
	"github.com/VKCOM/tl/verifh/pbt"
	"pgregory.net/rapid"
)

type simCase struct {
	Restarts bool         `json:"restarts"`
	Cmds     pbt.HexBytes `json:"cmds_hex"`
	Pretty   string       `json:"pretty"`
}

// command grammar of udp.FuzzDyukov: n(src|dst<<4, size) w(t) r(t, dgram) e(t) t(t|timer<<4) d(t, dgram) l(t, dgram)
func genCmds(rt *rapid.T, restarts bool) simCase {
	var b []byte
	var pretty []string
	// concentrate on a few transports so that commands meet on the same connections
	k := rapid.IntRange(2, 5).Draw(rt, "transports")
	base := rapid.IntRange(0, 16-k).Draw(rt, "base")
	tid := func(label string) int { return base + rapid.IntRange(0, k-1).Draw(rt, label) }
	n := rapid.IntRange(3, 160).Draw(rt, "n")
	verbs := []byte("nnnwwwwwwrrrrreeetdl")
	if rapid.Bool().Draw(rt, "lossy") {
		verbs = append(verbs, "ddlllttt"...)
	}
	for i := 0; i < n; i++ {
		v := rapid.SampledFrom(verbs).Draw(rt, "verb")
		switch v {
		case 'n':
			src := tid("src")
			dst := tid("dst")
			if dst <= src { // the protocol supports only one active side; the simulator skips these
				src, dst = dst, src
				if src == dst {
					dst = min(15, src+1)
					if dst == src {
						src--
					}
				}
			}
			size := rapid.SampledFrom([]int{4, 8, 24, 28, 32, 36, 56, 64, 100, 128, 200, 252}).Draw(rt, "size")
			b = append(b, 'n', byte(src|dst<<4), byte(size))
			pretty = append(pretty, fmt.Sprintf("n(%d->%d,%d)", src, dst, size))
		case 'w', 'e':
			t := tid("t")
			b = append(b, v, byte(t))
			pretty = append(pretty, fmt.Sprintf("%c%d", v, t))
		case 'r', 'd', 'l':
			t := tid("t")
			d := rapid.IntRange(0, 6).Draw(rt, "dgram")
			b = append(b, v, byte(t), byte(d))
			pretty = append(pretty, fmt.Sprintf("%c(%d,#%d)", v, t, d))
		case 't':
			t := tid("t")
			timer := rapid.IntRange(0, 3).Draw(rt, "timer")
			b = append(b, 't', byte(t|timer<<4))
			pretty = append(pretty, fmt.Sprintf("t(%d,%d)", t, timer))
		}
	}
	b = append(b, 0, 0) // the decoder stops 2 bytes before the end
	return simCase{Restarts: restarts, Cmds: b, Pretty: strings.Join(pretty, " ")}
}

const stallMsg = "But no new received or acked chunks in any connection or increased generation"

func check(c simCase) pbt.Result {
	out := udp.VerifRunSimulator(c.Cmds, c.Restarts)
	if out == nil {
		return pbt.Fail("simulator returned without reaching its end")
	}
	stalled := false
	if out.Panic != nil {
		if s, ok := out.Panic.(string); ok && s == stallMsg && c.Restarts {
			// With restarts the settle loop's liveness heuristic is not an oracle (delivery is not promised and the
			// loop never fires regenerate timers); the memory clauses below are still checked on the stalled state.
			stalled = true
		} else {
			return pbt.Fail("simulator invariant violated: %v", out.Panic) // every other simulator panic is a violation
		}
	}
	// memory balance: what a transport accounts as acquired is exactly what its connections still hold
	for i, a := range out.AcquiredMemory {
		if a != out.HeldByConns[i] {
			return pbt.Fail("transport %d accounts %d bytes of acquired incoming memory but its connections hold %d (leak or double release)", i, a, out.HeldByConns[i])
		}
	}
	if stalled {
		return pbt.Result{Classes: []string{"restarts", "restart-stall"}}
	}
	msgs, multi, lossOrDup := 0, 0, strings.ContainsAny(c.Pretty, "dl")
	for m, n := range out.Sent {
		msgs += n
		if len(m.Message) > 28 {
			multi++
		}
	}
	for i, a := range out.AcquiredMemory {
		if a > out.MemoryLimit[i] {
			return pbt.Fail("transport %d holds %d bytes of incoming message memory, limit %d", i, a, out.MemoryLimit[i])
		}
	}
	if !c.Restarts {
		for m, n := range out.Sent {
			if got := out.Received[m]; got != n {
				return pbt.Fail("message %d->%d (nonce %d, len %d) submitted %d time(s) but delivered %d time(s)", m.Src, m.Dst, m.Message[0], len(m.Message), n, got)
			}
		}
		for m, n := range out.Received {
			if _, ok := out.Sent[m]; !ok {
				return pbt.Fail("message %d->%d (first byte %d, len %d) delivered %d time(s) but never submitted (corrupted contents?)", m.Src, m.Dst, m.Message[0], len(m.Message), n)
			}
		}
		for i, a := range out.AcquiredMemory {
			if a != 0 {
				return pbt.Fail("after settling transport %d still holds %d bytes of incoming message memory (all %d messages delivered)", i, a, msgs)
			}
		}
	}
	cls := []string{}
	if msgs >= 2 {
		cls = append(cls, "msgs>=2")
	}
	if multi > 0 {
		cls = append(cls, "multi-chunk")
	}
	if lossOrDup {
		cls = append(cls, "loss-or-dup")
	}
	if c.Restarts {
		cls = append(cls, "restarts")
	}
	return pbt.Result{NonTrivial: msgs >= 2 && multi > 0 && lossOrDup, Classes: cls}
}

func TestC36NoRestarts(t *testing.T) {
	log.SetOutput(io.Discard)
	pbt.Run(t, "udp-sim-no-restarts", pbt.Scale(24000, 1500000), func(rt *rapid.T) simCase { return genCmds(rt, false) }, check)
}

func TestC36Restarts(t *testing.T) {
	log.SetOutput(io.Discard)
	pbt.Run(t, "udp-sim-restarts", pbt.Scale(12000, 700000), func(rt *rapid.T) simCase { return genCmds(rt, true) }, check)
}

// TestC36Minimize reduces a failing replay (VERIF_MINIMIZE_IN) to a 1-minimal command sequence (VERIF_MINIMIZE_OUT).
func TestC36Minimize(t *testing.T) {
	in, out := os.Getenv("VERIF_MINIMIZE_IN"), os.Getenv("VERIF_MINIMIZE_OUT")
	if in == "" || out == "" {
		return
	}
	log.SetOutput(io.Discard)
	b, err := os.ReadFile(in)
	if err != nil {
		t.Fatal(err)
	}
	var r pbt.Replay
	var c simCase
	if json.Unmarshal(b, &r) != nil || json.Unmarshal(r.Case, &c) != nil {
		t.Fatal("bad replay")
	}
	var cmds [][]byte
	var names []string
	pretty := strings.Fields(c.Pretty)
	for i := 0; i+2 < len(c.Cmds); {
		n := 1
		switch c.Cmds[i] {
		case 'n', 'r', 'd', 'l':
			n = 3
		case 'w', 'e', 't':
			n = 2
		}
		cmds = append(cmds, c.Cmds[i:i+n])
		i += n
	}
	for i := range cmds {
		if i < len(pretty) {
			names = append(names, pretty[i])
		} else {
			names = append(names, "?")
		}
	}
	idx := make([]int, len(cmds))
	for i := range idx {
		idx[i] = i
	}
	build := func(ix []int) simCase {
		var bb []byte
		var pp []string
		for _, i := range ix {
			bb = append(bb, cmds[i]...)
			pp = append(pp, names[i])
		}
		return simCase{Restarts: c.Restarts, Cmds: append(bb, 0, 0), Pretty: strings.Join(pp, " ")}
	}
	first := pbt.Safe(check, build(idx))
	if first.Err == nil {
		t.Fatal("replay does not fail")
	}
	key := first.Err.Error()
	if len(key) > 40 {
		key = key[:40]
	}
	res := pbt.DDMin(idx, func(ix []int) bool {
		r := pbt.Safe(check, build(ix))
		return r.Err != nil && strings.HasPrefix(r.Err.Error(), key)
	})
	mc := build(res)
	js, _ := json.Marshal(mc)
	r.Case = js
	ob, _ := json.MarshalIndent(r, "", " ")
	os.WriteFile(out, ob, 0o644)
	fmt.Printf("minimized %d -> %d commands: %s\n", len(cmds), len(res), mc.Pretty)
}
