package c27

import (
	"fmt"
	"io"
	"os"
	"path/filepath"
	"strings"
	"testing"

	"github.com/VKCOM/tl/internal/pure"
	"github.com/VKCOM/tl/verifh/pbt"
	"github.com/VKCOM/tl/verifh/schemagen"
	"pgregory.net/rapid"
)

// ---- C27: TL1 -> TL2 migration preserves the TL2 wire format and JSON ------------------------------------------

type migCase struct {
	Schema    *schemagen.Schema `json:"schema"`
	WhiteList string            `json:"white_list"`
	ValueSeed uint64            `json:"value_seed"`
}

func kernelOf(whiteList string, paths ...string) (k *pure.Kernel, err error) {
	defer func() {
		if r := recover(); r != nil {
			err = fmt.Errorf("kernel panicked: %v", r)
		}
	}()
	k = pure.NewKernel(&pure.OptionsKernel{TypesWhiteList: "*", TL2WhiteList: whiteList, ErrorWriter: io.Discard})
	if err := k.AddFilesFromPaths(paths); err != nil {
		return nil, err
	}
	return k, nil
}

func quietly(f func() error) (err error) {
	stdout := os.Stdout
	if null, e := os.OpenFile(os.DevNull, os.O_WRONLY, 0); e == nil {
		os.Stdout = null // Migration prints statistics
		defer func() { os.Stdout = stdout; null.Close() }()
	}
	defer func() {
		if r := recover(); r != nil {
			err = fmt.Errorf("panicked: %v", r)
		}
	}()
	return f()
}

func workDir() string {
	if w := os.Getenv("VERIF_WORK"); w != "" {
		return w
	}
	return os.TempDir()
}

func checkC27(c migCase) pbt.Result {
	text := c.Schema.Text(schemagen.Layout{})
	root, err := os.MkdirTemp(workDir(), "c27-")
	if err != nil {
		return pbt.Result{Err: err}
	}
	defer os.RemoveAll(root)
	dirOld, dirNew := filepath.Join(root, "old"), filepath.Join(root, "new")
	for _, d := range []string{dirOld, dirNew} {
		os.MkdirAll(d, 0o755)
		if err := os.WriteFile(filepath.Join(d, "schema.tl"), []byte(text), 0o644); err != nil {
			return pbt.Result{Err: err}
		}
	}
	kOld, err := kernelOf("*", dirOld)
	if err == nil {
		err = quietly(kOld.Compile)
	}
	if err != nil {
		return pbt.Result{Classes: []string{"schema-not-accepted-by-the-kernel"}}
	}
	kMig, err := kernelOf(c.WhiteList, dirNew)
	if err == nil {
		err = quietly(kMig.Migration)
	}
	if err != nil {
		if strings.Contains(err.Error(), "panicked") {
			return pbt.Fail("migration with whitelist %q: %v\n--- schema ---\n%s", c.WhiteList, err, text)
		}
		return pbt.Result{Classes: []string{"migration-refused"}}
	}
	migrated, _ := os.ReadFile(filepath.Join(dirNew, "schema.tl2"))
	left, _ := os.ReadFile(filepath.Join(dirNew, "schema.tl"))
	show := func() string {
		return fmt.Sprintf("--- whitelist %q, original schema ---\n%s--- remaining schema.tl ---\n%s--- schema.tl2 ---\n%s", c.WhiteList, text, left, migrated)
	}
	kNew, err := kernelOf("*", dirNew)
	if err == nil {
		err = quietly(kNew.Compile)
	}
	if err != nil {
		return pbt.Fail("the migrated schema does not compile: %v\n%s", err, show())
	}
	// Everything the original schema declares at top level must still exist. (Wire format and JSON of values are
	// compared on generated code for both schema versions - see the C27 pair units of the driver; the interpreter cannot
	// carry values here: it drops present-but-empty optional fields of TL2-origin types and does not terminate on
	// recursive ones.)
	byType := map[string]int{}
	for _, cb := range c.Schema.Combs {
		if !cb.IsFunc {
			byType[cb.ResultType]++
		}
	}
	compared := 0
	for _, cb := range c.Schema.Combs {
		if len(cb.Params) != 0 {
			continue
		}
		name := cb.Name
		if !cb.IsFunc && byType[cb.ResultType] > 1 {
			name = cb.ResultType
		}
		if kOld.GetObjectInstance(name) == nil {
			continue
		}
		if kNew.GetObjectInstance(name) == nil {
			return pbt.Fail("%s exists in the original schema but not in the migrated one\n%s", name, show())
		}
		compared++
	}
	cls := []string{"migration-accepted"}
	if c.WhiteList != "*" {
		cls = append(cls, "partial-whitelist")
	}
	if len(left) > 0 && strings.Contains(string(left), "=") {
		cls = append(cls, "something-left-in-tl1")
	}
	return pbt.Result{NonTrivial: compared >= 3, Classes: cls}
}

func TestC27Migration(t *testing.T) {
	pbt.Run(t, "migration", pbt.Scale(6000, 200000), func(rt *rapid.T) migCase {
		o := schemagen.DefaultOpts()
		o.MinCombs, o.MaxCombs = 4, 18
		s := schemagen.Generate(rt, o)
		wl := "*"
		if rapid.IntRange(0, 9).Draw(rt, "partial") < 6 {
			var parts []string
			for _, ns := range []string{"a.", "b.", "svc."} {
				if rapid.Bool().Draw(rt, "ns-"+ns) {
					parts = append(parts, ns)
				}
			}
			// single types from the default namespace
			for _, cb := range s.Combs {
				if !strings.Contains(cb.Name, ".") && !cb.IsFunc && rapid.IntRange(0, 5).Draw(rt, "pick") == 0 {
					parts = append(parts, cb.Name)
				}
			}
			if len(parts) > 0 {
				wl = strings.Join(parts, ",")
			}
		}
		return migCase{Schema: s, WhiteList: wl, ValueSeed: rapid.Uint64().Draw(rt, "vseed")}
	}, func(c migCase) pbt.Result {
		r := checkC27(c)
		r.Classes = append(r.Classes, "in-process")
		return r
	})
}
