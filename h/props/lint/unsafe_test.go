package lint

import (
	"fmt"
	"testing"

	"github.com/VKCOM/tl/verifh/pbt"
	"github.com/VKCOM/tl/verifh/schemagen"
	"pgregory.net/rapid"
)

var unsafeKinds = []string{"remove-function", "remove-constructor", "remove-field", "change-field-type", "change-field-type", "change-field-type", "change-mask-bit", "change-mask-ref", "add-mask", "remove-mask", "append-unmasked-field", "reuse-bit", "bare-type-to-union", "remove-template-arg", "switch-nat-source", "switch-nat-source", "reuse-forwarded-bit", "reuse-forwarded-bit"}

// leafTypes collects pointers to every primitive-like leaf (int/long/string/float/double) of a type tree.
func leafTypes(t *schemagen.TypeExpr, out *[]*schemagen.TypeExpr) {
	switch t.Kind {
	case "ref":
		switch t.Name {
		case "int", "long", "string", "float", "double", "Int", "Long", "String", "Double":
			*out = append(*out, t)
		}
		for i := range t.Args {
			if t.Args[i].Type != nil {
				leafTypes(t.Args[i].Type, out)
			}
		}
	case "brackets":
		for i := range t.Rep {
			leafTypes(&t.Rep[i].Type, out)
		}
	}
}

func natUsers(c *schemagen.Comb) map[string]bool {
	out := passedAsArg(c)
	for _, f := range c.Fields {
		if f.Mask != nil {
			out[f.Mask.Src] = true
		}
	}
	return out
}

// applyUnsafe applies one documented unsafe edit; returns a description or "" if no candidate exists.
func applyUnsafe(s *schemagen.Schema, e edit) string {
	refs := referenced(s)
	tn := typeNames(s)
	switch e.Kind {
	case "remove-function":
		var idx []int
		for i, c := range s.Combs {
			if c.IsFunc {
				idx = append(idx, i)
			}
		}
		if len(idx) == 0 {
			return ""
		}
		i := idx[e.At%len(idx)]
		name := s.Combs[i].Name
		s.Combs = append(s.Combs[:i], s.Combs[i+1:]...)
		return "removed function " + name
	case "remove-constructor":
		var idx []int
		for i, c := range s.Combs {
			if !c.IsFunc && len(tn[c.ResultType]) >= 2 {
				idx = append(idx, i)
			}
		}
		if len(idx) == 0 {
			// an unreferenced single-constructor type
			for i, c := range s.Combs {
				if !c.IsFunc && !refs[c.Name] && !refs[c.ResultType] {
					idx = append(idx, i)
				}
			}
		}
		if len(idx) == 0 {
			return ""
		}
		i := idx[e.At%len(idx)]
		name := s.Combs[i].Name
		s.Combs = append(s.Combs[:i], s.Combs[i+1:]...)
		return "removed constructor " + name
	case "remove-field", "change-field-type", "change-mask-bit", "change-mask-ref", "add-mask", "remove-mask", "append-unmasked-field", "reuse-bit":
		type cand struct {
			c *schemagen.Comb
			f int
		}
		var cands []cand
		for _, c := range s.Combs {
			users := natUsers(c)
			masks := []string{}
			for _, f := range c.Fields {
				if f.Type.Kind == "prim" && f.Type.Name == "#" {
					masks = append(masks, f.Name)
				}
			}
			for _, p := range c.Params {
				if p.IsNat && p.Name == "m" {
					masks = append(masks, p.Name)
				}
			}
			switch e.Kind {
			case "append-unmasked-field":
				if !c.IsFunc {
					cands = append(cands, cand{c, -1})
				}
				continue
			case "reuse-bit":
				for fi, f := range c.Fields {
					if f.Mask != nil && !c.IsFunc {
						cands = append(cands, cand{c, fi})
					}
				}
				continue
			}
			for fi, f := range c.Fields {
				isNat := f.Type.Kind == "prim" && f.Type.Name == "#"
				switch e.Kind {
				case "remove-field":
					if !(isNat && users[f.Name]) && f.Name != "" {
						cands = append(cands, cand{c, fi})
					}
				case "change-field-type":
					var ls []*schemagen.TypeExpr
					leafTypes(&c.Fields[fi].Type, &ls)
					if len(ls) > 0 {
						cands = append(cands, cand{c, fi})
					}
				case "change-mask-bit":
					if f.Mask != nil {
						cands = append(cands, cand{c, fi})
					}
				case "change-mask-ref":
					if f.Mask != nil && len(masks) >= 2 {
						cands = append(cands, cand{c, fi})
					}
				case "add-mask":
					// a mask declared before the field
					if f.Mask == nil && !isNat && f.Name != "" && len(masksBefore(c, fi)) > 0 {
						cands = append(cands, cand{c, fi})
					}
				case "remove-mask":
					if f.Mask != nil && !(f.Type.Kind == "ref" && f.Type.Name == "true") && !isNat {
						cands = append(cands, cand{c, fi})
					}
				}
			}
		}
		if len(cands) == 0 {
			return ""
		}
		k := cands[e.At%len(cands)]
		c := k.c
		switch e.Kind {
		case "remove-field":
			name := c.Fields[k.f].Name
			c.Fields = append(c.Fields[:k.f], c.Fields[k.f+1:]...)
			return fmt.Sprintf("removed field %s of %s", name, c.Name)
		case "change-field-type":
			var ls []*schemagen.TypeExpr
			leafTypes(&c.Fields[k.f].Type, &ls)
			l := ls[e.Sub%len(ls)]
			old := l.Name
			switch l.Name {
			case "int":
				l.Name = "long"
			case "long":
				l.Name = "int"
			case "string":
				l.Name = "int"
			case "float":
				l.Name = "double"
			case "double":
				l.Name = "float"
			case "Int":
				l.Name = "Long"
			case "Long":
				l.Name = "Int"
			case "String":
				l.Name = "Int"
			case "Double":
				l.Name = "Long"
			}
			return fmt.Sprintf("changed a %s inside the type of field %s of %s to %s (leaf %d of %d)", old, c.Fields[k.f].Name, c.Name, l.Name, e.Sub%len(ls), len(ls))
		case "change-mask-bit":
			used := usedBits(c, c.Fields[k.f].Mask.Src)
			for b := 0; b < 32; b++ {
				nb := (b + e.Sub) % 32
				if !used[nb] {
					old := c.Fields[k.f].Mask.Bit
					c.Fields[k.f].Mask.Bit = nb
					return fmt.Sprintf("changed mask bit of %s.%s from %d to %d", c.Name, c.Fields[k.f].Name, old, nb)
				}
			}
			return ""
		case "change-mask-ref":
			for _, m := range masksBefore(c, k.f) {
				if m != c.Fields[k.f].Mask.Src {
					old := c.Fields[k.f].Mask.Src
					c.Fields[k.f].Mask.Src = m
					return fmt.Sprintf("changed mask of %s.%s from %s to %s", c.Name, c.Fields[k.f].Name, old, m)
				}
			}
			return ""
		case "add-mask":
			ms := masksBefore(c, k.f)
			m := ms[e.Sub%len(ms)]
			used := usedBits(c, m)
			for b := 0; b < 32; b++ {
				if !used[b] {
					c.Fields[k.f].Mask = &schemagen.MaskRef{Src: m, Bit: b}
					return fmt.Sprintf("added mask %s.%d to existing field %s.%s", m, b, c.Name, c.Fields[k.f].Name)
				}
			}
			return ""
		case "remove-mask":
			c.Fields[k.f].Mask = nil
			return fmt.Sprintf("removed the mask of %s.%s", c.Name, c.Fields[k.f].Name)
		case "append-unmasked-field":
			c.Fields = append(c.Fields, schemagen.Field{Name: "appended", Type: intType()})
			return "appended an unmasked field to " + c.Name
		case "reuse-bit":
			m := c.Fields[k.f].Mask
			c.Fields = append(c.Fields, schemagen.Field{Name: "reused", Mask: &schemagen.MaskRef{Src: m.Src, Bit: m.Bit}, Type: intType()})
			return fmt.Sprintf("appended a field reusing bit %s.%d of %s", m.Src, m.Bit, c.Name)
		}
	case "bare-type-to-union":
		var cands []*schemagen.Comb
		bareF, bareR := bareUses(s)
		for _, c := range s.Combs {
			// used bare: through its constructor name, or as %Type
			if !c.IsFunc && len(tn[c.ResultType]) == 1 && len(c.Params) == 0 && (bareF[c.Name] || bareR[c.Name] || bareF[c.ResultType] || bareR[c.ResultType]) {
				cands = append(cands, c)
			}
		}
		if len(cands) == 0 {
			return ""
		}
		if e.Sub%2 == 0 { // prefer a type whose bare uses all sit inside function results ("wherever the edit occurs")
			var only []*schemagen.Comb
			for _, c := range cands {
				if !bareF[c.Name] && !bareF[c.ResultType] {
					only = append(only, c)
				}
			}
			if len(only) > 0 {
				cands = only
			}
		}
		c := cands[e.At%len(cands)]
		nc := &schemagen.Comb{Name: c.Name + "Second", ResultType: c.ResultType, Fields: []schemagen.Field{{Name: "v", Type: intType()}}}
		for i, x := range s.Combs {
			if x == c {
				s.Combs = append(s.Combs[:i+1], append([]*schemagen.Comb{nc}, s.Combs[i+1:]...)...)
				break
			}
		}
		return "turned bare-used type " + c.ResultType + " into a union"
	case "remove-template-arg":
		var cands []*schemagen.Comb
		for _, c := range s.Combs {
			if len(c.Params) >= 2 {
				cands = append(cands, c)
			}
		}
		if len(cands) == 0 {
			return ""
		}
		c := cands[e.At%len(cands)]
		pi := e.Sub % len(c.Params)
		pname := c.Params[pi].Name
		// drop the fields that mention the parameter
		var kept []schemagen.Field
		for _, f := range c.Fields {
			if mentions(&f.Type, pname) || (f.Mask != nil && f.Mask.Src == pname) {
				continue
			}
			kept = append(kept, f)
		}
		c.Fields = kept
		c.Params = append(c.Params[:pi:pi], c.Params[pi+1:]...)
		c.ResultArgs = append(c.ResultArgs[:pi:pi], c.ResultArgs[pi+1:]...)
		// drop the argument at every use
		var fix func(t *schemagen.TypeExpr)
		fix = func(t *schemagen.TypeExpr) {
			if t.Kind == "ref" && (t.Name == c.Name || t.Name == c.ResultType) && len(t.Args) > pi {
				t.Args = append(t.Args[:pi:pi], t.Args[pi+1:]...)
			}
			for i := range t.Args {
				if t.Args[i].Type != nil {
					fix(t.Args[i].Type)
				}
			}
			for i := range t.Rep {
				fix(&t.Rep[i].Type)
			}
		}
		for _, x := range s.Combs {
			for i := range x.Fields {
				fix(&x.Fields[i].Type)
			}
			if x.FuncResult != nil {
				fix(x.FuncResult)
			}
		}
		return fmt.Sprintf("removed template argument %s of %s", pname, c.Name)
	}
	return applyUnsafe2(s, e)
}

func mentions(t *schemagen.TypeExpr, name string) bool {
	if (t.Kind == "tparam" || t.Kind == "ref") && t.Name == name {
		return true
	}
	if t.Scale != nil && t.Scale.Name == name {
		return true
	}
	for i := range t.Args {
		if t.Args[i].Nat != nil && t.Args[i].Nat.Name == name {
			return true
		}
		if t.Args[i].Type != nil && mentions(t.Args[i].Type, name) {
			return true
		}
	}
	for i := range t.Rep {
		if mentions(&t.Rep[i].Type, name) {
			return true
		}
	}
	return false
}

func masksBefore(c *schemagen.Comb, fi int) []string {
	var out []string
	for _, p := range c.Params {
		if p.IsNat && p.Name == "m" {
			out = append(out, p.Name)
		}
	}
	size := passedAsArg(c)
	for i := 0; i < fi; i++ {
		f := c.Fields[i]
		if f.Type.Kind == "prim" && f.Type.Name == "#" && !size[f.Name] {
			out = append(out, f.Name)
		}
	}
	return out
}

// shuffleDecls reorders the declarations (types among types, functions among functions) deterministically.
func shuffleDecls(s *schemagen.Schema, seed uint64) {
	x := seed | 1
	next := func(n int) int {
		x ^= x << 13
		x ^= x >> 7
		x ^= x << 17
		return int(x % uint64(n))
	}
	var types, funcs []*schemagen.Comb
	for _, c := range s.Combs {
		if c.IsFunc {
			funcs = append(funcs, c)
		} else {
			types = append(types, c)
		}
	}
	for _, l := range [][]*schemagen.Comb{types, funcs} {
		for i := len(l) - 1; i > 0; i-- {
			j := next(i + 1)
			l[i], l[j] = l[j], l[i]
		}
	}
	s.Combs = append(types, funcs...)
}

func checkC30(c evoCase) pbt.Result {
	newS := clone(c.Old)
	e := c.Edits[0]
	what := applyUnsafe(newS, e)
	if what == "" {
		return pbt.Result{Classes: []string{"no-candidate-" + e.Kind}}
	}
	pinTags(c.Old, newS) // so that a rejection is due to the edit, not to the tag an edit changes implicitly
	oldS := clone(c.Old)
	if c.Order%3 != 0 { // the linter walks declarations in file order: exercise other orders too
		shuffleDecls(oldS, c.Order)
		shuffleDecls(newS, c.Order>>7)
	}
	oldText := oldS.Text(schemagen.Layout{})
	newText := newS.Text(schemagen.Layout{Seed: c.Order, Level: 1})
	if oldAst, err := parse(oldText); err != nil || compiles(oldAst) != nil {
		return pbt.Result{Classes: []string{"old-schema-not-accepted-by-tlgen"}}
	}
	ok, _, nap, pan := verdict(oldText, newText)
	if nap != "" {
		return pbt.Result{Classes: []string{"edit-does-not-compile-" + e.Kind}}
	}
	if pan != "" {
		if pbt.Known("F9") && !pbt.Replaying() && e.Kind == "remove-template-arg" {
			return pbt.Result{Excluded: "F9"}
		}
		return pbt.Fail("linter panicked instead of rejecting (%s): %s\n--- diff ---\n%s", what, pan, lineDiff(c.Old.Text(schemagen.Layout{}), clone2(newS)))
	}
	if ok {
		if pbt.Known("F1") && !pbt.Replaying() && e.Kind == "change-field-type" && insideBrackets(c.Old, newS) {
			return pbt.Result{Excluded: "F1"}
		}
		return pbt.Fail("linter accepts a documented unsafe evolution: %s\n--- diff ---\n%s", what, lineDiff(c.Old.Text(schemagen.Layout{}), clone2(newS)))
	}
	return pbt.Result{NonTrivial: true, Classes: []string{e.Kind}}
}

func clone2(s *schemagen.Schema) string { return s.Text(schemagen.Layout{}) }

// insideBrackets: the only difference between the schemas lies inside a repetition "n*[...]" (finding F1).
func insideBrackets(oldS, newS *schemagen.Schema) bool {
	for i, c := range oldS.Combs {
		for _, n := range newS.Combs {
			if n.Name != c.Name || len(n.Fields) != len(c.Fields) {
				continue
			}
			for fi := range c.Fields {
				if c.Fields[fi].Type.Kind == "brackets" && c.Fields[fi].Plain() != n.Fields[fi].Plain() {
					_ = i
					return true
				}
			}
		}
	}
	return false
}

func TestC30UnsafeEvolutions(t *testing.T) {
	pbt.Run(t, "linter-rejects-unsafe", pbt.Scale(3000, 200000), func(rt *rapid.T) evoCase { return genEvo(rt, unsafeKinds, 1) }, checkC30)
}
