package lint

import (
	"bytes"
	"fmt"
	"testing"

	"github.com/VKCOM/tl/verifh/pbt"
	"github.com/VKCOM/tl/verifh/refcodec"
	"github.com/VKCOM/tl/verifh/schemagen"
	"pgregory.net/rapid"
)

// ---- C28: whatever the linter accepts keeps the TL1 wire format of old values ---------------------------------

var extraKinds = []string{"rename-field", "boxed-bare-flip", "change-explicit-tag", "swap-fields", "change-const-arg", "change-nat-arg"}

// applyExtra applies edits outside the documented lists (the linter may accept or reject them; either way the wire
// oracle decides whether an acceptance was sound).
func applyExtra(s *schemagen.Schema, e edit) string {
	type cand struct {
		c *schemagen.Comb
		f int
	}
	var cands []cand
	for _, c := range s.Combs {
		for fi, f := range c.Fields {
			switch e.Kind {
			case "rename-field":
				if f.Name != "" && !natUsers(c)[f.Name] {
					cands = append(cands, cand{c, fi})
				}
			case "boxed-bare-flip":
				if f.Type.Kind == "ref" && len(f.Type.Args) == 0 {
					switch f.Type.Name {
					case "int", "long", "string", "Int", "Long", "String":
						cands = append(cands, cand{c, fi})
					}
				}
			case "swap-fields":
				if fi+1 < len(c.Fields) && f.Mask == nil && c.Fields[fi+1].Mask == nil && f.Type.Kind == "ref" && c.Fields[fi+1].Type.Kind == "ref" && f.Type.Name != c.Fields[fi+1].Type.Name && f.Type.Name != "#" && c.Fields[fi+1].Type.Name != "#" {
					cands = append(cands, cand{c, fi})
				}
			case "change-const-arg", "change-nat-arg":
				for _, a := range f.Type.Args {
					if a.Nat != nil && (a.Nat.Kind == "const") == (e.Kind == "change-const-arg") {
						cands = append(cands, cand{c, fi})
						break
					}
				}
			}
		}
		if e.Kind == "change-explicit-tag" && c.Tag != nil {
			cands = append(cands, cand{c, -1})
		}
	}
	if len(cands) == 0 {
		return ""
	}
	k := cands[e.At%len(cands)]
	c := k.c
	switch e.Kind {
	case "rename-field":
		old := c.Fields[k.f].Name
		c.Fields[k.f].Name = old + "Renamed"
		return fmt.Sprintf("renamed field %s.%s", c.Name, old)
	case "boxed-bare-flip":
		t := &c.Fields[k.f].Type
		flip := map[string]string{"int": "Int", "long": "Long", "string": "String", "Int": "int", "Long": "long", "String": "string"}
		old := t.Name
		t.Name = flip[t.Name]
		return fmt.Sprintf("changed %s.%s from %s to %s", c.Name, c.Fields[k.f].Name, old, t.Name)
	case "change-explicit-tag":
		t := *c.Tag ^ 0x5a5a0001
		c.Tag = &t
		return "changed the explicit tag of " + c.Name
	case "swap-fields":
		c.Fields[k.f], c.Fields[k.f+1] = c.Fields[k.f+1], c.Fields[k.f]
		return fmt.Sprintf("swapped fields %d and %d of %s", k.f, k.f+1, c.Name)
	case "change-const-arg":
		for i, a := range c.Fields[k.f].Type.Args {
			if a.Nat != nil && a.Nat.Kind == "const" {
				n := *a.Nat
				n.Const, n.Sum = n.Const+1, nil
				c.Fields[k.f].Type.Args[i].Nat = &n
				return fmt.Sprintf("changed a constant argument in the type of %s.%s", c.Name, c.Fields[k.f].Name)
			}
		}
	case "change-nat-arg":
		for i, a := range c.Fields[k.f].Type.Args {
			if a.Nat != nil && a.Nat.Kind != "const" {
				n := schemagen.NatExpr{Kind: "const", Const: 2}
				c.Fields[k.f].Type.Args[i].Nat = &n
				return fmt.Sprintf("replaced a field-valued argument by a constant in the type of %s.%s", c.Name, c.Fields[k.f].Name)
			}
		}
	}
	return ""
}

// pinTags gives every combinator of the new schema that also exists in the old one the old tag explicitly, as the
// repository's own linter samples do whenever they touch a combinator; an edit that sets an explicit tag itself
// (change-explicit-tag) is left alone.
func pinTags(old, new *schemagen.Schema) {
	tags := map[string]uint32{}
	for _, c := range old.Combs {
		tags[c.Name] = c.EffectiveTag()
	}
	for _, c := range new.Combs {
		if t, ok := tags[c.Name]; ok && c.Tag == nil {
			t := t
			c.Tag = &t
		}
	}
}

type soundCase struct {
	evoCase
	ValueSeed uint64 `json:"value_seed"`
	Unpinned  bool   `json:"unpinned,omitempty"` // leave implicit tags implicit (an append then changes the tag)
}

func checkC28(c soundCase) pbt.Result {
	newS := clone(c.Old)
	var applied []string
	for i, e := range c.Edits {
		switch {
		case contains(safeKinds, e.Kind):
			if applySafe(newS, e, i) && e.Kind != "identity" {
				applied = append(applied, e.Kind)
			}
		case contains(extraKinds, e.Kind):
			if w := applyExtra(newS, e); w != "" {
				applied = append(applied, w)
			}
		default:
			if w := applyUnsafe(newS, e); w != "" {
				applied = append(applied, w)
			}
		}
	}
	if !c.Unpinned {
		pinTags(c.Old, newS)
	}
	oldText := c.Old.Text(schemagen.Layout{})
	newText := newS.Text(schemagen.Layout{Seed: c.Order, Level: 1})
	if oldAst, err := parse(oldText); err != nil || compiles(oldAst) != nil {
		return pbt.Result{Classes: []string{"old-schema-not-accepted-by-tlgen"}}
	}
	ok, _, nap, pan := verdict(oldText, newText)
	if nap != "" {
		return pbt.Result{Classes: []string{"not-a-pair"}}
	}
	if pan != "" {
		return pbt.Result{Classes: []string{"linter-panicked"}} // C30's business
	}
	if !ok {
		return pbt.Result{Classes: []string{"rejected"}}
	}
	// accepted: every old value must keep its encoding
	ro, rn := refcodec.NewResolver(c.Old), refcodec.NewResolver(newS)
	newByName := map[string]*schemagen.Comb{}
	for _, x := range newS.Combs {
		newByName[x.Name] = x
	}
	rnd := refcodec.NewRand(c.ValueSeed)
	values := 0
	for _, oc := range refcodec.TopLevel(c.Old) {
		nc := newByName[oc.Name]
		for k := 0; k < 6; k++ {
			v, err := ro.GenTop(rnd, oc)
			if err != nil {
				return pbt.Fail("harness: cannot generate a value of %s: %v", oc.Name, err)
			}
			a, err := ro.EncodeTop(oc, v)
			if err != nil {
				return pbt.Fail("harness: cannot encode a value of %s under the old schema: %v", oc.Name, err)
			}
			if nc == nil {
				return pbt.Fail("linter accepted %v but %s no longer exists in the new schema", applied, oc.Name)
			}
			b, err := rn.EncodeTop(nc, v)
			if err != nil {
				return pbt.Fail("linter accepted %v but a value of %s (%x under the old schema) cannot be encoded under the new schema: %v\n%s\n%s", applied, oc.Name, a, err, oc.PlainLine(), nc.PlainLine())
			}
			want := a
			if oc.IsFunc && len(nc.Fields) > len(oc.Fields) {
				// appended function arguments: the appended field masks are written as zero
				for _, f := range nc.Fields[len(oc.Fields):] {
					if f.Mask == nil && f.Type.Name == "#" {
						want = append(append([]byte{}, want...), 0, 0, 0, 0)
					}
				}
			}
			if !bytes.Equal(b, want) {
				return pbt.Fail("linter accepted %v but the TL1 encoding of a value of %s changes: old schema %x, new schema %x\n old: %s\n new: %s", applied, oc.Name, a, b, oc.PlainLine(), nc.PlainLine())
			}
			if !(oc.IsFunc && len(nc.Fields) > len(oc.Fields)) {
				dv, rest, err := rn.DecodeTop(a, nc)
				if err != nil || len(rest) != 0 {
					return pbt.Fail("linter accepted %v but the new schema cannot decode the old encoding %x of %s: %v (%d bytes left)\n old: %s\n new: %s", applied, a, oc.Name, err, len(rest), oc.PlainLine(), nc.PlainLine())
				}
				back, err := rn.EncodeTop(nc, dv)
				if err != nil || !bytes.Equal(back, a) {
					return pbt.Fail("linter accepted %v but the old encoding %x of %s is re-encoded by the new schema as %x (%v)", applied, a, oc.Name, back, err)
				}
			}
			values++
		}
	}
	cls := []string{"accepted"}
	if len(applied) > 0 {
		cls = append(cls, "accepted-with-edits")
	}
	return pbt.Result{NonTrivial: len(applied) > 0 && values > 0, Classes: cls}
}

func contains(xs []string, x string) bool {
	for _, y := range xs {
		if x == y {
			return true
		}
	}
	return false
}

func TestC28Soundness(t *testing.T) {
	all := append(append(append([]string{}, safeKinds...), unsafeKinds...), extraKinds...)
	all = append(all, safeKinds...) // accepted pairs are what the oracle applies to
	pbt.Run(t, "linter-soundness", pbt.Scale(12000, 300000), func(rt *rapid.T) soundCase {
		return soundCase{evoCase: genEvo(rt, all, 3), ValueSeed: rapid.Uint64().Draw(rt, "vseed"), Unpinned: rapid.IntRange(0, 9).Draw(rt, "unpinned") == 0}
	}, checkC28)
}
