// Package lint holds the backward-compatibility linter checks C29 (accepts documented safe evolutions) and
// C30 (rejects documented unsafe evolutions); C28 (soundness against a reference codec) lives next to them.
package lint

import (
	"encoding/json"
	"fmt"
	"io"
	"strings"
	"testing"

	"github.com/VKCOM/tl/internal/tlast"
	"github.com/VKCOM/tl/internal/tlcodegen"
	"github.com/VKCOM/tl/verifh/pbt"
	"github.com/VKCOM/tl/verifh/schemagen"
	"pgregory.net/rapid"
)

func clone(s *schemagen.Schema) *schemagen.Schema {
	b, _ := json.Marshal(s)
	var out schemagen.Schema
	json.Unmarshal(b, &out)
	return &out
}

func parse(text string) ([]*tlast.Combinator, error) {
	tl, err := tlast.ParseTLFile(text, "s.tl", tlast.LexerOptions{LexerLanguage: tlast.TL1})
	if err != nil {
		return nil, err
	}
	return tl.Combinators(), nil
}

// compiles runs the same first step as cmd/tlgen: the schema must be accepted by the old generator's front end.
func compiles(ast []*tlast.Combinator) (err error) {
	defer func() {
		if r := recover(); r != nil {
			err = fmt.Errorf("GenerateCode panicked: %v", r)
		}
	}()
	_, err = tlcodegen.GenerateCode(ast, tlast.TL2File{}, tlcodegen.Gen2Options{ErrorWriter: io.Discard})
	return err
}

// verdict runs the linter exactly as cmd/tlgen does (parse both, compile the new one, compare).
func verdict(oldText, newText string) (accepted bool, msg string, notAPair string, panicked string) {
	oldAst, err := parse(oldText)
	if err != nil {
		return false, "", "old schema does not parse: " + err.Error(), ""
	}
	newAst, err := parse(newText)
	if err != nil {
		return false, "", "new schema does not parse: " + err.Error(), ""
	}
	if err := compiles(newAst); err != nil {
		return false, "", "new schema does not compile: " + err.Error(), ""
	}
	newAst, _ = parse(newText) // GenerateCode mutates the AST; the CLI compares the same objects, but a fresh parse is equivalent for the comparison
	func() {
		defer func() {
			if r := recover(); r != nil {
				panicked = fmt.Sprint(r)
			}
		}()
		if pe := tlcodegen.CheckBackwardCompatibility(newAst, oldAst); pe != nil {
			msg = pe.Error()
		} else {
			accepted = true
		}
	}()
	return
}

// ---- helpers over the model ------------------------------------------------------------------------------

// externalMasks: names of # fields of c that are passed as an argument to some type (their bits are interpreted
// elsewhere) or used as a size.
func passedAsArg(c *schemagen.Comb) map[string]bool {
	out := map[string]bool{}
	var walk func(t *schemagen.TypeExpr)
	walk = func(t *schemagen.TypeExpr) {
		if t.Scale != nil && t.Scale.Kind != "const" {
			out[t.Scale.Name] = true
		}
		for i := range t.Args {
			if t.Args[i].Nat != nil && t.Args[i].Nat.Kind != "const" {
				out[t.Args[i].Nat.Name] = true
			}
			if t.Args[i].Type != nil {
				walk(t.Args[i].Type)
			}
		}
		for i := range t.Rep {
			walk(&t.Rep[i].Type)
		}
	}
	for i := range c.Fields {
		walk(&c.Fields[i].Type)
	}
	if c.FuncResult != nil {
		walk(c.FuncResult)
	}
	return out
}

func usedBits(c *schemagen.Comb, mask string) map[int]bool {
	out := map[int]bool{}
	for _, f := range c.Fields {
		if f.Mask != nil && f.Mask.Src == mask {
			out[f.Mask.Bit] = true
		}
	}
	return out
}

func localMasks(c *schemagen.Comb) []string {
	ext := passedAsArg(c)
	var out []string
	for _, f := range c.Fields {
		if f.Type.Kind == "prim" && f.Type.Name == "#" && !ext[f.Name] && len(usedBits(c, f.Name)) > 0 {
			out = append(out, f.Name)
		}
	}
	return out
}

func typeNames(s *schemagen.Schema) map[string][]*schemagen.Comb {
	out := map[string][]*schemagen.Comb{}
	for _, c := range s.Combs {
		if !c.IsFunc {
			out[c.ResultType] = append(out[c.ResultType], c)
		}
	}
	return out
}

// referenced: every name (constructor or type) that occurs in some field / result type.
func referenced(s *schemagen.Schema) map[string]bool {
	out := map[string]bool{}
	var walk func(t *schemagen.TypeExpr)
	walk = func(t *schemagen.TypeExpr) {
		if t.Kind == "ref" {
			out[t.Name] = true
		}
		for i := range t.Args {
			if t.Args[i].Type != nil {
				walk(t.Args[i].Type)
			}
		}
		for i := range t.Rep {
			walk(&t.Rep[i].Type)
		}
	}
	for _, c := range s.Combs {
		for i := range c.Fields {
			walk(&c.Fields[i].Type)
		}
		if c.FuncResult != nil {
			walk(c.FuncResult)
		}
	}
	return out
}

// bareUses: for every name (constructor name, or type name written with %) the places it is used bare: in some field
// or argument type, and in some function result.
func bareUses(s *schemagen.Schema) (inFields, inResults map[string]bool) {
	inFields, inResults = map[string]bool{}, map[string]bool{}
	var walk func(t *schemagen.TypeExpr, into map[string]bool)
	walk = func(t *schemagen.TypeExpr, into map[string]bool) {
		if t.Kind == "ref" {
			short := t.Name[strings.LastIndex(t.Name, ".")+1:]
			if t.Bare || (short != "" && short[0] >= 'a' && short[0] <= 'z') {
				into[t.Name] = true
			}
		}
		for i := range t.Args {
			if t.Args[i].Type != nil {
				walk(t.Args[i].Type, into)
			}
		}
		for i := range t.Rep {
			walk(&t.Rep[i].Type, into)
		}
	}
	for _, c := range s.Combs {
		for i := range c.Fields {
			walk(&c.Fields[i].Type, inFields)
		}
		if c.FuncResult != nil {
			walk(c.FuncResult, inResults)
		}
	}
	return inFields, inResults
}

// referencedInFields: like referenced, but function results are left out.
func referencedInFields(s *schemagen.Schema) map[string]bool {
	t := &schemagen.Schema{}
	for _, c := range s.Combs {
		x := *c
		x.FuncResult = nil
		t.Combs = append(t.Combs, &x)
	}
	return referenced(t)
}

type evoCase struct {
	Old   *schemagen.Schema `json:"old"`
	Edits []edit            `json:"edits"`
	Order uint64            `json:"layout_seed"`
}

type edit struct {
	Kind string `json:"kind"`
	At   int    `json:"at"`  // which candidate
	Sub  int    `json:"sub"` // secondary choice
}

func intType() schemagen.TypeExpr { return schemagen.TypeExpr{Kind: "ref", Name: "int"} }

var safeKinds = []string{"identity", "append-masked-field", "append-masked-field", "append-two-fields-one-new-bit", "append-masked-args-to-function", "append-union-constructor", "add-type", "add-function-with-mask"}

// applySafe applies one documented safe edit; returns false if no candidate position exists.
func applySafe(s *schemagen.Schema, e edit, seq int) bool {
	switch e.Kind {
	case "identity":
		return true
	case "append-masked-field", "append-two-fields-one-new-bit":
		type cand struct {
			c *schemagen.Comb
			m string
		}
		var cands []cand
		for _, c := range s.Combs {
			if c.IsFunc {
				continue
			}
			for _, m := range localMasks(c) {
				cands = append(cands, cand{c, m})
			}
		}
		if len(cands) == 0 {
			return false
		}
		k := cands[e.At%len(cands)]
		used := usedBits(k.c, k.m)
		bit := -1
		for b := 0; b < 32; b++ {
			if !used[(b+e.Sub)%32] {
				bit = (b + e.Sub) % 32
				break
			}
		}
		if bit < 0 {
			return false
		}
		types := []schemagen.TypeExpr{intType(), {Kind: "ref", Name: "string"}, {Kind: "ref", Name: "true"}, {Kind: "ref", Name: "vector", Args: []schemagen.Arg{{Type: &schemagen.TypeExpr{Kind: "ref", Name: "long"}}}}}
		k.c.Fields = append(k.c.Fields, schemagen.Field{Name: fmt.Sprintf("added%d", seq), Mask: &schemagen.MaskRef{Src: k.m, Bit: bit}, Type: types[e.Sub%len(types)]})
		if e.Kind == "append-two-fields-one-new-bit" { // several new fields may share one previously unused bit
			k.c.Fields = append(k.c.Fields, schemagen.Field{Name: fmt.Sprintf("added%dtwin", seq), Mask: &schemagen.MaskRef{Src: k.m, Bit: bit}, Type: types[(e.Sub+1)%len(types)]})
		}
		return true
	case "append-masked-args-to-function":
		// arguments of a function are fields too: one to three new arguments under free bits of a # argument whose
		// bits are interpreted nowhere else (not a size, not handed to a type); the mask may be unused so far, and a
		// new argument may itself be a #
		type fcand struct {
			c *schemagen.Comb
			m string
		}
		var fcands []fcand
		for _, c := range s.Combs {
			if !c.IsFunc {
				continue
			}
			ext := passedAsArg(c)
			for _, f := range c.Fields {
				if f.Type.Kind == "prim" && f.Type.Name == "#" && !ext[f.Name] {
					fcands = append(fcands, fcand{c, f.Name})
				}
			}
		}
		if len(fcands) == 0 {
			return false
		}
		fk := fcands[e.At%len(fcands)]
		fused := usedBits(fk.c, fk.m)
		ftypes := []schemagen.TypeExpr{{Kind: "prim", Name: "#"}, intType(), {Kind: "ref", Name: "string"}, {Kind: "ref", Name: "Bool"}, {Kind: "ref", Name: "true"}}
		n := 1 + e.Sub%3
		for i, b := 0, 0; i < n && b < 32; b++ {
			bit := (b + e.Sub) % 32
			if fused[bit] {
				continue
			}
			fused[bit] = true
			fk.c.Fields = append(fk.c.Fields, schemagen.Field{Name: fmt.Sprintf("addedarg%d_%d", seq, i), Mask: &schemagen.MaskRef{Src: fk.m, Bit: bit}, Type: ftypes[(e.Sub/3+i)%len(ftypes)]})
			i++
		}
		return true
	case "append-union-constructor":
		var unions []string
		for name, cs := range typeNames(s) {
			if len(cs) >= 2 && len(cs[0].Params) == 0 {
				unions = append(unions, name)
			}
		}
		if len(unions) == 0 {
			return false
		}
		sortStrings(unions)
		name := unions[e.At%len(unions)]
		cs := typeNames(s)[name]
		last := cs[len(cs)-1]
		nc := &schemagen.Comb{Name: fmt.Sprintf("%sExtra%d", strings.TrimSuffix(strings.TrimSuffix(strings.TrimSuffix(strings.TrimSuffix(last.Name, "One"), "Two"), "Three"), "Four"), seq), ResultType: name}
		if e.Sub%2 == 0 {
			nc.Fields = []schemagen.Field{{Name: "payload", Type: intType()}}
		}
		// keep the union's constructors together: insert after the last one
		for i, c := range s.Combs {
			if c == last {
				s.Combs = append(s.Combs[:i+1], append([]*schemagen.Comb{nc}, s.Combs[i+1:]...)...)
				break
			}
		}
		return true
	case "add-type":
		nc := &schemagen.Comb{Name: fmt.Sprintf("zz.brandNew%d", seq), ResultType: fmt.Sprintf("zz.BrandNew%d", seq), Fields: []schemagen.Field{{Name: "a", Type: intType()}, {Name: "m", Type: schemagen.TypeExpr{Kind: "prim", Name: "#"}}, {Name: "b", Mask: &schemagen.MaskRef{Src: "m", Bit: e.Sub % 32}, Type: schemagen.TypeExpr{Kind: "ref", Name: "string"}}}}
		// types go before the first function
		for i, c := range s.Combs {
			if c.IsFunc {
				s.Combs = append(s.Combs[:i:i], append([]*schemagen.Comb{nc}, s.Combs[i:]...)...)
				return true
			}
		}
		s.Combs = append(s.Combs, nc)
		return true
	case "add-function-with-mask":
		res := intType()
		res.Name = "Int"
		nc := &schemagen.Comb{Name: fmt.Sprintf("zz.newCall%d", seq), IsFunc: true, Ann: []string{"read"}, FuncResult: &res,
			Fields: []schemagen.Field{{Name: "fields_mask", Type: schemagen.TypeExpr{Kind: "prim", Name: "#"}}, {Name: "x", Mask: &schemagen.MaskRef{Src: "fields_mask", Bit: e.Sub % 32}, Type: intType()}}}
		if e.Sub%3 == 0 {
			nc.Fields = append(nc.Fields, schemagen.Field{Name: "y", Type: schemagen.TypeExpr{Kind: "ref", Name: "string"}})
		}
		s.Combs = append(s.Combs, nc)
		return true
	}
	return false
}

func sortStrings(xs []string) {
	for i := 1; i < len(xs); i++ {
		for j := i; j > 0 && xs[j] < xs[j-1]; j-- {
			xs[j], xs[j-1] = xs[j-1], xs[j]
		}
	}
}

func genEvo(rt *rapid.T, kinds []string, maxEdits int) evoCase {
	o := schemagen.DefaultOpts()
	o.MinCombs = 8
	c := evoCase{Old: schemagen.Generate(rt, o), Order: rapid.Uint64().Draw(rt, "layout")}
	n := rapid.IntRange(1, maxEdits).Draw(rt, "nedits")
	for i := 0; i < n; i++ {
		c.Edits = append(c.Edits, edit{Kind: rapid.SampledFrom(kinds).Draw(rt, "kind"), At: rapid.IntRange(0, 1000).Draw(rt, "at"), Sub: rapid.IntRange(0, 1000).Draw(rt, "sub")})
	}
	return c
}

func checkC29(c evoCase) pbt.Result {
	newS := clone(c.Old)
	applied := []string{}
	for i, e := range c.Edits {
		if applySafe(newS, e, i) {
			applied = append(applied, e.Kind)
		}
	}
	pinTags(c.Old, newS) // an edit "only appends": the tag stays what it was, spelled explicitly as in the repository's samples
	oldText := c.Old.Text(schemagen.Layout{})
	newText := newS.Text(schemagen.Layout{Seed: c.Order, Level: 1})
	if oldAst, err := parse(oldText); err != nil || compiles(oldAst) != nil {
		return pbt.Result{Classes: []string{"old-schema-not-accepted-by-tlgen"}}
	}
	ok, msg, nap, pan := verdict(oldText, newText)
	if nap != "" {
		return pbt.Fail("harness: a safe edit sequence %v produced a schema that is not accepted: %s", applied, nap)
	}
	if pan != "" {
		return pbt.Fail("linter panicked on a safe evolution %v: %s", applied, pan)
	}
	if !ok {
		return pbt.Fail("linter rejects a documented safe evolution %v: %s\n--- diff ---\n%s", applied, msg, lineDiff(oldText, newS.Text(schemagen.Layout{})))
	}
	real := 0
	for _, k := range applied {
		if k != "identity" {
			real++
		}
	}
	return pbt.Result{NonTrivial: real > 0, Classes: applied}
}

func lineDiff(a, b string) string {
	am := map[string]bool{}
	for _, l := range strings.Split(a, "\n") {
		am[l] = true
	}
	bm := map[string]bool{}
	for _, l := range strings.Split(b, "\n") {
		bm[l] = true
	}
	var out []string
	for _, l := range strings.Split(a, "\n") {
		if !bm[l] {
			out = append(out, "- "+l)
		}
	}
	for _, l := range strings.Split(b, "\n") {
		if !am[l] {
			out = append(out, "+ "+l)
		}
	}
	if len(out) > 12 {
		out = out[:12]
	}
	return strings.Join(out, "\n")
}

func TestC29SafeEvolutions(t *testing.T) {
	pbt.Run(t, "linter-accepts-safe", pbt.Scale(1500, 100000), func(rt *rapid.T) evoCase { return genEvo(rt, safeKinds, 4) }, checkC29)
}
