package lint

import (
	"fmt"

	"github.com/VKCOM/tl/verifh/refcodec"
	"github.com/VKCOM/tl/verifh/schemagen"
)

// Further unsafe edits (added after a second round of seeded changes showed positions the first set never touched):
//   switch-nat-source    the # source of a repetition count / nat argument of an existing field becomes another # of the
//                        combinator ("changes the type ... of an existing field")
//   reuse-forwarded-bit  a field is appended under a bit of a local # field that a type this # is passed to already gives
//                        meaning to ("reuses a mask bit already given meaning")

var unsafeKinds2 = []string{"switch-nat-source", "reuse-forwarded-bit"}

func natNamesBefore(c *schemagen.Comb, fi int) []string {
	var out []string
	for _, p := range c.Params {
		if p.IsNat {
			out = append(out, p.Name)
		}
	}
	for i := 0; i < fi && i < len(c.Fields); i++ {
		f := c.Fields[i]
		if f.Type.Kind == "prim" && f.Type.Name == "#" && f.Name != "" && f.Mask == nil {
			out = append(out, f.Name)
		}
	}
	return out
}

// natSlots lists the places inside a field's type where a # name is used as a count or an argument.
func natSlots(t *schemagen.TypeExpr, out *[]*schemagen.NatExpr) {
	if t.Scale != nil && t.Scale.Kind != "const" {
		*out = append(*out, t.Scale)
	}
	for i := range t.Args {
		if n := t.Args[i].Nat; n != nil && n.Kind != "const" {
			*out = append(*out, n)
		}
		if t.Args[i].Type != nil {
			natSlots(t.Args[i].Type, out)
		}
	}
	for i := range t.Rep {
		natSlots(&t.Rep[i].Type, out)
	}
}

func applyUnsafe2(s *schemagen.Schema, e edit) string {
	switch e.Kind {
	case "switch-nat-source":
		type cand struct {
			c    *schemagen.Comb
			f    int
			slot *schemagen.NatExpr
			to   string
		}
		var cands []cand
		for _, c := range s.Combs {
			for fi := range c.Fields {
				var slots []*schemagen.NatExpr
				natSlots(&c.Fields[fi].Type, &slots)
				for _, sl := range slots {
					for _, other := range natNamesBefore(c, fi) {
						if other != sl.Name {
							cands = append(cands, cand{c, fi, sl, other})
						}
					}
				}
			}
		}
		if len(cands) == 0 {
			return ""
		}
		k := cands[e.At%len(cands)]
		old := k.slot.Name
		k.slot.Name = k.to
		return fmt.Sprintf("the # source %s in the type of %s.%s became %s", old, k.c.Name, k.c.Fields[k.f].Name, k.to)
	case "reuse-forwarded-bit":
		r := refcodec.NewResolver(s)
		type cand struct {
			c   *schemagen.Comb
			nat string
			bit int
		}
		var cands []cand
		for _, c := range s.Combs {
			if c.IsFunc {
				continue
			}
			for _, f := range c.Fields {
				if !(f.Type.Kind == "prim" && f.Type.Name == "#") || f.Name == "" || f.Mask != nil {
					continue
				}
				local := usedBits(c, f.Name)
				all := r.MeaningfulBits(c, f.Name, 0)
				for b := 0; b < 32; b++ {
					if all>>uint(b)&1 == 1 && !local[b] {
						cands = append(cands, cand{c, f.Name, b})
					}
				}
			}
		}
		if len(cands) == 0 {
			return ""
		}
		k := cands[e.At%len(cands)]
		k.c.Fields = append(k.c.Fields, schemagen.Field{Name: "reusedFwd", Mask: &schemagen.MaskRef{Src: k.nat, Bit: k.bit}, Type: intType()})
		return fmt.Sprintf("appended a field under bit %s.%d of %s, which a type that receives %s already uses", k.nat, k.bit, k.c.Name, k.nat)
	}
	return ""
}
