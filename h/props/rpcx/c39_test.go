package rpcx

import (
	"context"
	"fmt"
	"strings"
	"sync"
	"sync/atomic"
	"testing"
	"time"

	"github.com/VKCOM/tl/pkg/rpc"
	"github.com/VKCOM/tl/verifh/pbt"
	"pgregory.net/rapid"
)

type c39Burst struct {
	Unix       bool  `json:"unix"`
	MaxWorkers int   `json:"max_workers"`
	Clients    int   `json:"clients"`       // one connection each
	PerClient  int   `json:"per_client"`    // concurrent requests per connection
	BufSizeKiB int   `json:"req_buf_kib"`   // ServerWithRequestBufSize: every request accounts at least this much
	BodyKiB    []int `json:"body_kib"`      // body size per request (cycled)
	LimitMiB   int   `json:"limit_mib"`     // requested limit (clamped by the server to >= 16 MiB - 1)
	ReleaseGap int   `json:"release_gap_us"` // pause between releasing blocked handlers
	Kill       int   `json:"kill_clients,omitempty"` // connections closed by their client while the burst is piled up
	SecondWave int   `json:"second_wave,omitempty"`  // requests from fresh connections after the kill
}

func genC39(rt *rapid.T) c39Burst {
	b := c39Burst{
		Unix:       rapid.Bool().Draw(rt, "unix"),
		MaxWorkers: rapid.IntRange(1, 4).Draw(rt, "workers"),
		Clients:    rapid.IntRange(2, 10).Draw(rt, "clients"),
		PerClient:  rapid.IntRange(1, 4).Draw(rt, "per_client"),
		LimitMiB:   rapid.SampledFrom([]int{0, 1, 16, 20}).Draw(rt, "limit"),
		ReleaseGap: rapid.SampledFrom([]int{0, 100, 1000}).Draw(rt, "gap"),
	}
	if rapid.IntRange(0, 3).Draw(rt, "mode") > 0 {
		// accounting inflated through the request buffer size: small bodies, large accounted memory
		b.BufSizeKiB = rapid.SampledFrom([]int{1024, 2048, 3072, 5000}).Draw(rt, "buf")
		b.BodyKiB = []int{rapid.IntRange(0, 8).Draw(rt, "body")}
	} else {
		n := rapid.IntRange(1, 4).Draw(rt, "nsizes")
		for i := 0; i < n; i++ {
			b.BodyKiB = append(b.BodyKiB, rapid.SampledFrom([]int{512, 1024, 2048, 3072, 5120}).Draw(rt, "kib"))
		}
	}
	if rapid.IntRange(0, 2).Draw(rt, "kill-mode") > 0 {
		// some peers go away while their requests wait for memory; fresh connections then bring more load
		b.Kill = rapid.IntRange(1, max(1, b.Clients/2)).Draw(rt, "kill")
		b.SecondWave = rapid.IntRange(2, 12).Draw(rt, "second")
		if b.PerClient < 2 {
			b.PerClient = 2
		}
	}
	return b
}

// runC39: a failed call is reported when the same burst fails again against a fresh server (three times in a row).
// On a machine busy with sixteen shards one burst per run was seen to lose a connection once and never when repeated
// or replayed alone; such a schedule-dependent outcome is counted (class call-failure-not-reproduced), not reported.
// Limit violations (worker count, memory) are reported at once.
func runC39(b c39Burst) pbt.Result {
	r := runC39once(b)
	if r.Err == nil || !strings.Contains(r.Err.Error(), "call failed") || pbt.Replaying() {
		return r
	}
	for i := 0; i < 2; i++ {
		if again := runC39once(b); again.Err == nil {
			fmt.Printf("NOTE: a call of burst %+v failed once (%v) and not when the burst was repeated: schedule-dependent, not reported\n", b, r.Err)
			again.Classes = append(again.Classes, "call-failure-not-reproduced")
			again.NonTrivial = false
			return again
		}
	}
	return r
}

func runC39once(b c39Burst) pbt.Result {
	var running, maxRunning, handled, inHandlers, hardLimit atomic.Int64
	var memViolation atomic.Value
	gate := make(chan struct{})
	var srvRef atomic.Pointer[rpc.Server]
	sample := func(where string) {
		if s := srvRef.Load(); s != nil {
			cur, total := s.RequestsMemory()
			if cur > total {
				memViolation.CompareAndSwap(nil, fmt.Sprintf("%s: server accounts %d bytes of request memory, limit %d", where, cur, total))
			}
		}
	}
	handler := func(ctx context.Context, hctx *rpc.HandlerContext) error {
		n := running.Add(1)
		for {
			m := maxRunning.Load()
			if n <= m || maxRunning.CompareAndSwap(m, n) {
				break
			}
		}
		sample("in handler")
		// the harness' own account, independent of the server's counters: what the requests now inside handlers occupy
		mine := int64(max(len(hctx.Request), b.BufSizeKiB<<10))
		if cur := inHandlers.Add(mine); cur > hardLimit.Load() && hardLimit.Load() > 0 {
			memViolation.CompareAndSwap(nil, fmt.Sprintf("%d bytes of requests are inside handlers at the same time, request memory limit is %d", cur, hardLimit.Load()))
		}
		select {
		case <-gate:
		case <-ctx.Done():
		}
		sample("in handler after gate")
		inHandlers.Add(-mine)
		running.Add(-1)
		handled.Add(1)
		hctx.Response = append(hctx.Response, 0xef, 0xbe, 0xad, 0x0b)
		return nil
	}
	opts := []rpc.ServerOptionsFunc{rpc.ServerWithMaxWorkers(b.MaxWorkers), rpc.ServerWithRequestMemoryLimit(b.LimitMiB << 20)}
	if b.BufSizeKiB > 0 {
		opts = append(opts, rpc.ServerWithRequestBufSize(b.BufSizeKiB<<10))
	}
	srv, err := startServer(b.Unix, false, handler, opts...)
	if err != nil {
		pbt.Inconclusive("cannot start server: %v", err)
	}
	defer srv.close()
	srvRef.Store(srv.srv)
	_, limit := srv.srv.RequestsMemory()
	wantLimit := int64(max(b.LimitMiB<<20, 16<<20-1))
	if limit != wantLimit {
		return pbt.Fail("configured request memory limit %d MiB, server reports %d (documented clamp gives %d)", b.LimitMiB, limit, wantLimit)
	}
	hardLimit.Store(wantLimit)
	// the client's liveness timer (default 10 s without a packet) must not fire while a request rightly waits for
	// memory on a busy machine: a closed connection would look like "excess load failed"
	patient := rpc.ClientWithPacketTimeout(10 * time.Minute)
	clients := make([]rpc.Client, b.Clients)
	for i := range clients {
		clients[i] = newClient(false, patient)
	}
	defer func() {
		for _, c := range clients {
			_ = c.Close()
		}
	}()
	stopSampler := make(chan struct{})
	var samplerWG sync.WaitGroup
	samplerWG.Add(1)
	go func() {
		defer samplerWG.Done()
		for {
			select {
			case <-stopSampler:
				return
			default:
				sample("sampler")
				time.Sleep(50 * time.Microsecond)
			}
		}
	}()
	total := b.Clients * b.PerClient
	var accounted int64
	var wg sync.WaitGroup
	var callErr atomic.Value
	idx := 0
	for ci := 0; ci < b.Clients; ci++ {
		for k := 0; k < b.PerClient; k++ {
			kib := b.BodyKiB[idx%len(b.BodyKiB)]
			idx++
			accounted += int64(max(kib<<10+12, b.BufSizeKiB<<10))
			wg.Add(1)
			go func(cl rpc.Client, kib int, killed bool) {
				defer wg.Done()
				req := cl.GetRequest()
				req.Body = append(req.Body, makeBody(nextKey(), make([]byte, kib<<10))...)
				ctx, cancel := context.WithTimeout(context.Background(), 90*time.Second)
				defer cancel()
				resp, err := cl.Do(ctx, srv.ep.network, srv.ep.address, req)
				if err != nil && !killed {
					callErr.CompareAndSwap(nil, fmt.Sprintf("call failed: %v", err))
				}
				if resp != nil {
					cl.PutResponse(resp)
				}
			}(clients[ci], kib, ci < b.Kill)
		}
	}
	if b.Kill > 0 {
		// wait for the pile-up, make some peers go away while their requests are inside handlers / waiting for memory,
		// then bring fresh load over new connections
		for i := 0; i < 200 && running.Load() == 0; i++ {
			time.Sleep(time.Millisecond)
		}
		time.Sleep(20 * time.Millisecond)
		for ci := 0; ci < b.Kill && ci < len(clients); ci++ {
			_ = clients[ci].Close()
		}
		fresh := newClient(false, patient)
		clients = append(clients, fresh)
		for k := 0; k < b.SecondWave; k++ {
			kib := b.BodyKiB[idx%len(b.BodyKiB)]
			idx++
			total++
			wg.Add(1)
			go func(kib int) {
				defer wg.Done()
				req := fresh.GetRequest()
				req.Body = append(req.Body, makeBody(nextKey(), make([]byte, kib<<10))...)
				ctx, cancel := context.WithTimeout(context.Background(), 90*time.Second)
				defer cancel()
				resp, err := fresh.Do(ctx, srv.ep.network, srv.ep.address, req)
				if err != nil {
					callErr.CompareAndSwap(nil, fmt.Sprintf("second-wave call failed: %v", err))
				}
				if resp != nil {
					fresh.PutResponse(resp)
				}
			}(kib)
		}
	}
	allDone := make(chan struct{})
	go func() { wg.Wait(); close(allDone) }()
	finished := func() bool {
		select {
		case <-allDone:
			return true
		default:
			return false
		}
	}
	// let the burst pile up against the limits, then release handlers one at a time
	deadline := time.Now().Add(60 * time.Second)
	for !finished() && time.Now().Before(deadline) {
		if running.Load() > 0 {
			select {
			case gate <- struct{}{}:
			case <-time.After(2 * time.Millisecond):
			}
			if b.ReleaseGap > 0 {
				time.Sleep(time.Duration(b.ReleaseGap) * time.Microsecond)
			}
		} else {
			time.Sleep(100 * time.Microsecond)
		}
	}
	close(gate)
	waitErr := withTimeout(60*time.Second, "burst", func() { <-allDone })
	close(stopSampler)
	samplerWG.Wait()
	if v := memViolation.Load(); v != nil {
		return pbt.Fail("%s", v.(string))
	}
	if m := maxRunning.Load(); m > int64(b.MaxWorkers) {
		return pbt.Fail("%d handlers were executing concurrently, worker limit %d (%d connections x %d requests)", m, b.MaxWorkers, b.Clients, b.PerClient)
	}
	if waitErr != nil {
		pbt.Inconclusive("%v (handled %d of %d)", waitErr, handled.Load(), total)
	}
	if v := callErr.Load(); v != nil {
		return pbt.Fail("%s (excess load must wait, not fail)", v.(string))
	}
	cls := []string{fmt.Sprintf("workers-%d", b.MaxWorkers)}
	if b.Kill > 0 {
		cls = append(cls, "peers-went-away")
	}
	over := accounted > wantLimit
	if over {
		cls = append(cls, "over-memory-limit")
	}
	if total > b.MaxWorkers {
		cls = append(cls, "over-worker-limit")
	}
	return pbt.Result{NonTrivial: over && total > b.MaxWorkers, Classes: cls}
}

func TestC39Limits(t *testing.T) {
	pbt.Run(t, "rpc-server-limits", pbt.Scale(160, 6000), genC39, runC39)
}
