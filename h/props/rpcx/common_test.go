// Package rpcx holds the socket-level RPC checks C38 (own responses), C39 (limits) and C40 (extras).
package rpcx

import (
	"context"
	"encoding/binary"
	"fmt"
	"net"
	"os"
	"path/filepath"
	"sync"
	"sync/atomic"
	"time"

	"github.com/VKCOM/tl/pkg/rpc"
)

const bodyTag = 0x1badc0de // request bodies start with a non-protocol tag, as every real caller's do

const cryptoKey = "verif-rpc-crypto-key-0123456789abcdef-verif"

var keySeq atomic.Uint64

func nextKey() uint64 { return keySeq.Add(1) }

func makeBody(key uint64, rest []byte) []byte {
	b := make([]byte, 12, 12+len(rest))
	binary.LittleEndian.PutUint32(b, bodyTag)
	binary.LittleEndian.PutUint64(b[4:], key)
	return append(b, rest...)
}

func bodyKey(b []byte) (uint64, bool) {
	if len(b) < 12 || binary.LittleEndian.Uint32(b) != bodyTag {
		return 0, false
	}
	return binary.LittleEndian.Uint64(b[4:]), true
}

type endpoint struct {
	network, address string
	ln               net.Listener
	dir              string
}

func listen(unix bool) (*endpoint, error) {
	if unix {
		dir, err := os.MkdirTemp("", "vrpc")
		if err != nil {
			return nil, err
		}
		p := filepath.Join(dir, "s.sock")
		ln, err := net.Listen("unix", p)
		if err != nil {
			os.RemoveAll(dir)
			return nil, err
		}
		return &endpoint{"unix", p, ln, dir}, nil
	}
	ln, err := net.Listen("tcp4", "127.0.0.1:0")
	if err != nil {
		return nil, err
	}
	return &endpoint{"tcp4", ln.Addr().String(), ln, ""}, nil
}

func (e *endpoint) cleanup() {
	if e.dir != "" {
		os.RemoveAll(e.dir)
	}
}

func quiet(string, ...any) {}

type serverHandle struct {
	srv  *rpc.Server
	ep   *endpoint
	done chan struct{}
	once sync.Once
}

func startServer(unix, encrypt bool, handler rpc.HandlerFunc, opts ...rpc.ServerOptionsFunc) (*serverHandle, error) {
	ep, err := listen(unix)
	if err != nil {
		return nil, err
	}
	all := []rpc.ServerOptionsFunc{rpc.ServerWithHandler(handler), rpc.ServerWithLogf(quiet), rpc.ServerWithCryptoKeys([]string{cryptoKey}), rpc.ServerWithForceEncryption(encrypt)}
	all = append(all, opts...)
	srv := rpc.NewServer(all...)
	h := &serverHandle{srv: srv, ep: ep, done: make(chan struct{})}
	go func() {
		_ = srv.Serve(ep.ln)
		close(h.done)
	}()
	return h, nil
}

func (h *serverHandle) close() {
	h.once.Do(func() {
		_ = h.srv.Close()
		select {
		case <-h.done:
		case <-time.After(20 * time.Second):
		}
		h.ep.cleanup()
	})
}

func newClient(encrypt bool, opts ...rpc.ClientOptionsFunc) rpc.Client {
	all := []rpc.ClientOptionsFunc{rpc.ClientWithLogf(quiet), rpc.ClientWithCryptoKey(cryptoKey), rpc.ClientWithForceEncryption(encrypt)}
	all = append(all, opts...)
	return rpc.NewClient(all...)
}

func withTimeout(d time.Duration, what string, f func()) error {
	done := make(chan struct{})
	go func() { defer close(done); f() }()
	select {
	case <-done:
		return nil
	case <-time.After(d):
		return fmt.Errorf("%s did not finish within %v", what, d)
	}
}

var _ = context.Background
