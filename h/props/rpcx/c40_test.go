package rpcx

import (
	"bytes"
	"context"
	"errors"
	"fmt"
	"math"
	"sync"
	"testing"
	"time"

	"github.com/VKCOM/tl/pkg/rpc"
	"github.com/VKCOM/tl/pkg/rpc/tlerrorcodes"
	"github.com/VKCOM/tl/verifh/pbt"
	"pgregory.net/rapid"
)

type extraCase struct {
	Unix    bool  `json:"unix"`
	Encrypt bool  `json:"encrypt"`
	TL2     bool  `json:"tl2_body_format"`
	ActorID int64 `json:"actor_id"`

	ReqFlags          uint32           `json:"req_flags"`
	RequesterID       int64            `json:"requester_id"`
	WaitShards        map[string]int64 `json:"wait_shards"`
	WaitBinlogPos     int64            `json:"wait_binlog_pos"`
	StringForwardKeys []string         `json:"string_forward_keys"`
	IntForwardKeys    []int64          `json:"int_forward_keys"`
	StringForward     string           `json:"string_forward"`
	IntForward        int64            `json:"int_forward"`
	CustomTimeoutMs   int32            `json:"custom_timeout_ms"`
	Compression       int32            `json:"compression"`
	RandomDelayBits   uint64           `json:"random_delay_bits"`
	TraceMask         uint32           `json:"trace_mask"`
	TraceLo           int64            `json:"trace_lo"`
	TraceHi           int64            `json:"trace_hi"`
	TraceParent       int64            `json:"trace_parent"`
	TraceSource       string           `json:"trace_source"`
	ExecCtx           string           `json:"exec_ctx"`
	Payload           pbt.HexBytes     `json:"payload"`
	CtxDeadlineMs     int              `json:"ctx_deadline_ms"`

	RespFlags   uint32            `json:"resp_flags"`
	BinlogPos   int64             `json:"binlog_pos"`
	BinlogTime  int64             `json:"binlog_time"`
	Pid         [3]uint32         `json:"pid"`
	ReqSize     int32             `json:"req_size"`
	RespSize    int32             `json:"resp_size"`
	FailedSub   int32             `json:"failed_sub"`
	ComprVer    int32             `json:"compr_ver"`
	Stats       map[string]string `json:"stats"`
	ShardsPos   map[string]int64  `json:"shards_pos"`
	Epoch       int64             `json:"epoch"`
	View        int64             `json:"view"`
	RespPayload pbt.HexBytes      `json:"resp_payload"`
	ReturnErr   bool              `json:"return_err"`
	ErrCode     int32             `json:"err_code"`
	ErrDesc     string            `json:"err_desc"`
}

// request flag bits that carry data or are pure markers and do not change client/server behaviour
// (bit 7 no_result and bit 28 persistent_query are excluded: they change the call protocol itself)
var reqBits = []uint{0, 1, 2, 3, 4, 6, 8, 9, 14, 15, 16, 18, 19, 20, 21, 23, 25, 26, 27, 29, 30}
var respBits = []uint{0, 1, 2, 3, 4, 5, 6, 14, 27}

func genStr(rt *rapid.T, label string) string {
	return rapid.OneOf(rapid.StringMatching(`[a-z]{0,8}`), rapid.StringN(0, 40, 200), rapid.Just("")).Draw(rt, label)
}

func genI64(rt *rapid.T, label string) int64 {
	return rapid.OneOf(rapid.Int64(), rapid.SampledFrom([]int64{0, 1, -1, math.MaxInt64, math.MinInt64})).Draw(rt, label)
}

func genExtraCase(rt *rapid.T) extraCase {
	c := extraCase{
		Unix:    rapid.Bool().Draw(rt, "unix"),
		Encrypt: rapid.Bool().Draw(rt, "encrypt"),
		TL2:     rapid.Bool().Draw(rt, "tl2"),
		ActorID: genI64(rt, "actor"),
	}
	dense := rapid.IntRange(0, 2).Draw(rt, "density")
	pick := func(bits []uint, label string) uint32 {
		var f uint32
		for _, b := range bits {
			on := false
			switch dense {
			case 0:
				on = rapid.IntRange(0, 5).Draw(rt, label) == 0
			case 1:
				on = rapid.Bool().Draw(rt, label)
			case 2:
				on = rapid.IntRange(0, 9).Draw(rt, label) != 0
			}
			if on {
				f |= 1 << b
			}
		}
		return f
	}
	c.ReqFlags = pick(reqBits, "reqbit")
	c.RequesterID = genI64(rt, "requester")
	c.WaitShards = rapid.MapOfN(rapid.StringMatching(`[a-z0-9]{0,6}`), rapid.Int64(), 0, 3).Draw(rt, "wshards")
	c.WaitBinlogPos = genI64(rt, "wpos")
	c.StringForwardKeys = rapid.SliceOfN(rapid.StringN(0, 12, 40), 0, 3).Draw(rt, "sfk")
	c.IntForwardKeys = rapid.SliceOfN(rapid.Int64(), 0, 3).Draw(rt, "ifk")
	c.StringForward = genStr(rt, "sf")
	c.IntForward = genI64(rt, "if")
	c.CustomTimeoutMs = rapid.SampledFrom([]int32{30000, 45000, 86400000, math.MaxInt32}).Draw(rt, "timeout")
	c.Compression = rapid.Int32().Draw(rt, "compr")
	c.RandomDelayBits = math.Float64bits(rapid.SampledFrom([]float64{0, 0.5, 1e-9, 3.25}).Draw(rt, "delay"))
	c.TraceMask = rapid.Uint32Range(0, 255).Draw(rt, "tmask")
	c.TraceLo, c.TraceHi, c.TraceParent = genI64(rt, "tlo"), genI64(rt, "thi"), genI64(rt, "tparent")
	c.TraceSource = genStr(rt, "tsource")
	c.ExecCtx = genStr(rt, "exec")
	c.Payload = rapid.SliceOfN(rapid.Byte(), 0, 64).Draw(rt, "payload")
	if c.TL2 == false && len(c.Payload)%4 != 0 {
		c.Payload = c.Payload[:len(c.Payload)/4*4]
	}
	if rapid.IntRange(0, 4).Draw(rt, "deadline") == 0 {
		c.CtxDeadlineMs = rapid.SampledFrom([]int{20000, 40000, 120000}).Draw(rt, "deadline_ms")
	}
	c.RespFlags = pick(respBits, "respbit")
	c.BinlogPos, c.BinlogTime = genI64(rt, "bpos"), genI64(rt, "btime")
	c.Pid = [3]uint32{rapid.Uint32().Draw(rt, "ip"), rapid.Uint32().Draw(rt, "port"), rapid.Uint32().Draw(rt, "utime")}
	c.ReqSize, c.RespSize, c.FailedSub, c.ComprVer = rapid.Int32().Draw(rt, "rs"), rapid.Int32().Draw(rt, "rps"), rapid.Int32().Draw(rt, "fs"), rapid.Int32().Draw(rt, "cv")
	c.Stats = rapid.MapOfN(rapid.StringMatching(`[a-z]{0,5}`), rapid.StringN(0, 10, 30), 0, 3).Draw(rt, "stats")
	c.ShardsPos = rapid.MapOfN(rapid.StringMatching(`[a-z]{0,5}`), rapid.Int64(), 0, 3).Draw(rt, "spos")
	c.Epoch, c.View = genI64(rt, "epoch"), genI64(rt, "view")
	c.RespPayload = rapid.SliceOfN(rapid.Byte(), 0, 64).Draw(rt, "rpayload")
	c.RespPayload = append([]byte{0xef, 0xbe, 0xad, 0x0b}, c.RespPayload...) // non-protocol first word
	if !c.TL2 {
		c.RespPayload = c.RespPayload[:len(c.RespPayload)/4*4]
	}
	c.ReturnErr = rapid.IntRange(0, 2).Draw(rt, "err") == 0
	c.ErrCode = rapid.OneOf(rapid.Int32(), rapid.SampledFrom([]int32{0, -1, 1, -3000, -2000, math.MinInt32})).Draw(rt, "code")
	c.ErrDesc = genStr(rt, "desc")
	return c
}

func (c *extraCase) requestExtra() rpc.RequestExtra {
	var e rpc.RequestExtra
	e.Flags = c.ReqFlags
	on := func(b uint) bool { return c.ReqFlags&(1<<b) != 0 }
	if on(9) {
		e.RequesterId = c.RequesterID
	}
	if on(15) {
		e.WaitShardsBinlogPos = c.WaitShards
	}
	if on(16) {
		e.WaitBinlogPos = c.WaitBinlogPos
	}
	if on(18) {
		e.StringForwardKeys = c.StringForwardKeys
	}
	if on(19) {
		e.IntForwardKeys = c.IntForwardKeys
	}
	if on(20) {
		e.StringForward = c.StringForward
	}
	if on(21) {
		e.IntForward = c.IntForward
	}
	if on(23) {
		e.CustomTimeoutMs = c.CustomTimeoutMs
	}
	if on(25) {
		e.SupportedCompressionVersion = c.Compression
	}
	if on(26) {
		e.RandomDelay = math.Float64frombits(c.RandomDelayBits)
	}
	if on(29) {
		e.TraceContext.FieldsMask = c.TraceMask
		e.TraceContext.TraceId.Lo, e.TraceContext.TraceId.Hi = c.TraceLo, c.TraceHi
		if c.TraceMask&(1<<2) != 0 {
			e.TraceContext.ParentId = c.TraceParent
		}
		if c.TraceMask&(1<<3) != 0 {
			e.TraceContext.SourceId = c.TraceSource
		}
	}
	if on(30) {
		e.ExecutionContext = c.ExecCtx
	}
	return e
}

func (c *extraCase) responseExtra() rpc.ResponseExtra {
	var e rpc.ResponseExtra
	e.Flags = c.RespFlags
	on := func(b uint) bool { return c.RespFlags&(1<<b) != 0 }
	if on(0) {
		e.BinlogPos = c.BinlogPos
	}
	if on(1) {
		e.BinlogTime = c.BinlogTime
	}
	if on(2) {
		e.EnginePid.Ip, e.EnginePid.PortPid, e.EnginePid.Utime = c.Pid[0], c.Pid[1], c.Pid[2]
	}
	if on(3) {
		e.RequestSize, e.ResponseSize = c.ReqSize, c.RespSize
	}
	if on(4) {
		e.FailedSubqueries = c.FailedSub
	}
	if on(5) {
		e.CompressionVersion = c.ComprVer
	}
	if on(6) {
		e.Stats = c.Stats
	}
	if on(14) {
		e.ShardsBinlogPos = c.ShardsPos
	}
	if on(27) {
		e.EpochNumber, e.ViewNumber = c.Epoch, c.View
	}
	return e
}

type seenRequest struct {
	actorID int64
	tl2     bool
	extra   []byte // TL1 bytes of the extra the handler saw
	flags   uint32
	timeout int32
	body    []byte
}

type c40Instr struct {
	c    *extraCase
	seen chan seenRequest
}

var c40Instrs sync.Map // key -> *c40Instr

func c40Handler(ctx context.Context, hctx *rpc.HandlerContext) error {
	key, ok := bodyKey(hctx.Request)
	if !ok {
		return rpc.NewError(-7777, "harness: request body lost its tag")
	}
	v, ok := c40Instrs.Load(key)
	if !ok {
		return rpc.NewError(-7778, "harness: unknown call")
	}
	in := v.(*c40Instr)
	in.seen <- seenRequest{
		actorID: hctx.ActorID(), tl2: hctx.BodyFormatTL2(), extra: hctx.RequestExtra.WriteTL1(nil), flags: hctx.RequestExtra.Flags,
		timeout: hctx.RequestExtra.CustomTimeoutMs, body: append([]byte(nil), hctx.Request...),
	}
	hctx.ResponseExtra = in.c.responseExtra()
	if in.c.ReturnErr {
		return &rpc.Error{Code: in.c.ErrCode, Description: in.c.ErrDesc}
	}
	hctx.Response = append(hctx.Response, in.c.RespPayload...)
	return nil
}

type c40Env struct {
	srv *serverHandle
	cl  rpc.Client
}

var (
	c40Mu   sync.Mutex
	c40Envs = map[[2]bool]*c40Env{}
)

func c40GetEnv(unix, encrypt bool) (*c40Env, error) {
	c40Mu.Lock()
	defer c40Mu.Unlock()
	k := [2]bool{unix, encrypt}
	if e, ok := c40Envs[k]; ok {
		return e, nil
	}
	srv, err := startServer(unix, encrypt, c40Handler)
	if err != nil {
		return nil, err
	}
	e := &c40Env{srv: srv, cl: newClient(encrypt)}
	c40Envs[k] = e
	return e, nil
}

func checkExtras(c extraCase) pbt.Result {
	env, err := c40GetEnv(c.Unix, c.Encrypt)
	if err != nil {
		pbt.Inconclusive("cannot start server: %v", err)
	}
	key := nextKey()
	in := &c40Instr{c: &c, seen: make(chan seenRequest, 1)}
	c40Instrs.Store(key, in)
	defer c40Instrs.Delete(key)

	req := env.cl.GetRequest()
	req.ActorID = c.ActorID
	req.BodyFormatTL2 = c.TL2
	req.Extra = c.requestExtra()
	wantExtra := c.requestExtra()
	req.Body = append(req.Body, makeBody(key, c.Payload)...)
	wantBody := append([]byte(nil), req.Body...)
	ctx := context.Background()
	if c.CtxDeadlineMs > 0 {
		var cancel context.CancelFunc
		ctx, cancel = context.WithTimeout(ctx, time.Duration(c.CtxDeadlineMs)*time.Millisecond)
		defer cancel()
	}
	var resp *rpc.Response
	var callErr error
	if e := withTimeout(60*time.Second, "rpc call", func() { resp, callErr = env.cl.Do(ctx, env.srv.ep.network, env.srv.ep.address, req) }); e != nil {
		pbt.Inconclusive("%v", e)
	}
	if resp != nil {
		defer env.cl.PutResponse(resp)
	}
	var seen seenRequest
	select {
	case seen = <-in.seen:
	default:
		return pbt.Fail("handler was not called; client returned %v", callErr)
	}
	// ---- request side
	if seen.actorID != c.ActorID {
		return pbt.Fail("actor id sent %d, handler saw %d", c.ActorID, seen.actorID)
	}
	if seen.tl2 != c.TL2 {
		return pbt.Fail("body format TL2 sent %v, handler saw %v", c.TL2, seen.tl2)
	}
	if !bytes.Equal(seen.body, wantBody) {
		return pbt.Fail("request body changed in transit: sent %x, handler saw %x", wantBody, seen.body)
	}
	if c.CtxDeadlineMs > 0 {
		// with a context deadline the client may lower (never raise) the custom timeout; everything else must be unchanged
		limit := int32(c.CtxDeadlineMs)
		if wantExtra.IsSetCustomTimeoutMs() && wantExtra.CustomTimeoutMs < limit {
			limit = wantExtra.CustomTimeoutMs
		}
		if seen.flags&(1<<23) == 0 || seen.timeout <= 0 || seen.timeout > limit {
			return pbt.Fail("with a %d ms context deadline and custom timeout %d (set=%v) the handler saw custom timeout %d (flag set=%v)", c.CtxDeadlineMs, wantExtra.CustomTimeoutMs, wantExtra.IsSetCustomTimeoutMs(), seen.timeout, seen.flags&(1<<23) != 0)
		}
		wantExtra.SetCustomTimeoutMs(seen.timeout)
	}
	if seen.flags != wantExtra.Flags {
		return pbt.Fail("request extra flags sent %#x, handler saw %#x", wantExtra.Flags, seen.flags)
	}
	if want := wantExtra.WriteTL1(nil); !bytes.Equal(seen.extra, want) {
		return pbt.Fail("request extra changed in transit:\n sent %s\n seen bytes %x\n want bytes %x", wantExtra.String(), seen.extra, want)
	}
	// ---- response side
	if resp == nil {
		return pbt.Fail("client returned no response object (err %v)", callErr)
	}
	wantResp := c.responseExtra()
	wantResp.Flags &= c.ReqFlags // documented: only fields the client asked for (understands) are returned
	if got, want := resp.Extra.WriteTL1(nil), wantResp.WriteTL1(nil); resp.Extra.Flags != wantResp.Flags || !bytes.Equal(got, want) {
		return pbt.Fail("response extra changed in transit (request flags %#x, handler set flags %#x):\n got  %s\n want %s", c.ReqFlags, c.RespFlags, resp.Extra.String(), wantResp.String())
	}
	if c.ReturnErr {
		var re *rpc.Error
		if !errors.As(callErr, &re) {
			return pbt.Fail("handler returned rpc.Error(%d,%q), client got %T %v", c.ErrCode, c.ErrDesc, callErr, callErr)
		}
		wantCode := c.ErrCode
		if wantCode == 0 {
			wantCode = tlerrorcodes.Unknown // documented: code 0 cannot be transmitted as an error
		}
		if re.Code != wantCode || re.Description != c.ErrDesc {
			return pbt.Fail("error changed in transit: handler (%d,%q), client (%d,%q)", c.ErrCode, c.ErrDesc, re.Code, re.Description)
		}
	} else {
		if callErr != nil {
			return pbt.Fail("handler succeeded but client got %v", callErr)
		}
		if !bytes.Equal(resp.Body, c.RespPayload) {
			return pbt.Fail("response body changed in transit: handler %x, client %x", []byte(c.RespPayload), resp.Body)
		}
	}
	cls := []string{fmt.Sprintf("tl2=%v", c.TL2), fmt.Sprintf("err=%v", c.ReturnErr)}
	if c.RespFlags&^c.ReqFlags != 0 {
		cls = append(cls, "resp-flags-restricted")
	}
	if c.RespFlags&c.ReqFlags != 0 {
		cls = append(cls, "resp-extra-delivered")
	}
	if c.CtxDeadlineMs > 0 {
		cls = append(cls, "ctx-deadline")
	}
	if c.Encrypt {
		cls = append(cls, "encrypted")
	}
	return pbt.Result{NonTrivial: c.ReqFlags != 0 && c.RespFlags&c.ReqFlags != 0, Classes: cls}
}

func TestC40Extras(t *testing.T) {
	pbt.Run(t, "rpc-extras", pbt.Scale(6000, 400000), genExtraCase, checkExtras)
}
