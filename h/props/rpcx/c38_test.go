package rpcx

import (
	"bytes"
	"context"
	"encoding/binary"
	"errors"
	"fmt"
	"runtime"
	"strings"
	"sync"
	"testing"
	"time"

	"github.com/VKCOM/tl/pkg/rpc"
	"github.com/VKCOM/tl/pkg/rpc/tlerrorcodes"
	"github.com/VKCOM/tl/verifh/pbt"
	"pgregory.net/rapid"
)

type c38Call struct {
	Behaviour  string `json:"b"` // echo error sleep wait
	PayloadLen int    `json:"len"`
	SleepUs    int    `json:"sleep_us"`
	TimeoutUs  int    `json:"timeout_us"` // 0: none
	CancelUs   int    `json:"cancel_us"`  // 0: none
	Put        bool   `json:"put"`        // return the Response to the client's pool
	TL2        bool   `json:"tl2"`
}

type c38Worker struct {
	Client int       `json:"client"`
	Calls  []c38Call `json:"calls"`
}

type c38Scenario struct {
	Unix       bool        `json:"unix"`
	Encrypt    bool        `json:"encrypt"`
	Clients    int         `json:"clients"`
	MaxWorkers int         `json:"max_workers"`
	Procs      int         `json:"procs"`
	Workers    []c38Worker `json:"workers"`
	CloseWho   string      `json:"close_who"` // "" client server
	CloseUs    int         `json:"close_us"`
}

func genC38(rt *rapid.T) c38Scenario {
	s := c38Scenario{
		Unix:       rapid.Bool().Draw(rt, "unix"),
		Encrypt:    rapid.Bool().Draw(rt, "encrypt"),
		Clients:    rapid.IntRange(1, 3).Draw(rt, "clients"),
		MaxWorkers: rapid.SampledFrom([]int{1, 2, 4, 64}).Draw(rt, "maxworkers"),
		Procs:      rapid.SampledFrom([]int{1, 2, 4, 16}).Draw(rt, "procs"),
		CloseWho:   rapid.SampledFrom([]string{"", "", "", "client", "server"}).Draw(rt, "close"),
	}
	if s.CloseWho != "" {
		s.CloseUs = rapid.IntRange(0, 30000).Draw(rt, "close_us")
	}
	nw := rapid.IntRange(1, 8).Draw(rt, "nworkers")
	for w := 0; w < nw; w++ {
		wk := c38Worker{Client: rapid.IntRange(0, s.Clients-1).Draw(rt, "client")}
		nc := rapid.IntRange(1, 12).Draw(rt, "ncalls")
		for i := 0; i < nc; i++ {
			c := c38Call{
				Behaviour:  rapid.SampledFrom([]string{"echo", "echo", "echo", "error", "sleep", "sleep", "sleep", "wait"}).Draw(rt, "b"),
				PayloadLen: rapid.SampledFrom([]int{0, 4, 16, 100, 1000, 40000}).Draw(rt, "len"),
				Put:        rapid.IntRange(0, 3).Draw(rt, "put") > 0,
				TL2:        rapid.Bool().Draw(rt, "tl2"),
			}
			switch c.Behaviour {
			case "sleep":
				c.SleepUs = rapid.IntRange(0, 6000).Draw(rt, "sleep")
				switch rapid.IntRange(0, 6).Draw(rt, "limit") {
				case 0, 1, 2: // timeout close to the handler latency: response and timeout race
					c.TimeoutUs = max(300, c.SleepUs+rapid.IntRange(-300, 1200).Draw(rt, "dt"))
				case 3, 4:
					c.CancelUs = max(100, c.SleepUs+rapid.IntRange(-300, 1200).Draw(rt, "dc"))
				case 5:
					c.TimeoutUs = 3000000
				}
			case "wait":
				if rapid.Bool().Draw(rt, "wt") {
					c.TimeoutUs = rapid.IntRange(500, 5000).Draw(rt, "timeout")
				} else {
					// A client-side cancellation does not reach an ordinary handler (only connection close and the
					// transmitted timeout cancel its context), so a waiting handler also gets a deadline.
					c.CancelUs = rapid.IntRange(100, 5000).Draw(rt, "cancel")
					c.TimeoutUs = c.CancelUs + 20000
				}
			default:
				if rapid.IntRange(0, 3).Draw(rt, "t") == 0 {
					c.TimeoutUs = 3000000
				}
			}
			if s.CloseWho == "server" && c.TimeoutUs == 0 && c.CancelUs == 0 {
				c.TimeoutUs = 400000 // calls still queued when the server goes away wait for a reconnect: give them a deadline
			}
			wk.Calls = append(wk.Calls, c)
		}
		s.Workers = append(s.Workers, wk)
	}
	return s
}

func payloadFor(key uint64, n int) []byte {
	b := make([]byte, n)
	x := uint32(key)*2654435761 + 12345
	for i := range b {
		x = x*1664525 + 1013904223
		b[i] = byte(x >> 24)
	}
	return b
}

func transform(key uint64, payload []byte) []byte {
	out := make([]byte, 12, 12+len(payload))
	binary.LittleEndian.PutUint32(out, 0x0badbeef)
	binary.LittleEndian.PutUint64(out[4:], key)
	for i := len(payload) - 1; i >= 0; i-- {
		out = append(out, payload[i]^0x5a)
	}
	return out
}

func errCodeFor(key uint64) int32 { return -int32(key%100000) - 10 }

// request rest: behaviour(1) pad(3) sleepUs(4) payload
func c38Handler(ctx context.Context, hctx *rpc.HandlerContext) error {
	key, ok := bodyKey(hctx.Request)
	if !ok || len(hctx.Request) < 20 {
		return rpc.NewError(-7777, "harness: request body lost its tag")
	}
	b := hctx.Request[12]
	sleep := time.Duration(binary.LittleEndian.Uint32(hctx.Request[16:])) * time.Microsecond
	payload := hctx.Request[20:]
	switch b {
	case 'r':
		return &rpc.Error{Code: errCodeFor(key), Description: fmt.Sprintf("err-%d", key)}
	case 's':
		if sleep > 0 {
			t := time.NewTimer(sleep)
			select {
			case <-t.C:
			case <-ctx.Done():
				t.Stop()
				return ctx.Err()
			}
		} else {
			runtime.Gosched()
		}
	case 'w':
		<-ctx.Done()
		return ctx.Err()
	}
	hctx.Response = append(hctx.Response, transform(key, payload)...)
	return nil
}

func runC38(s c38Scenario) pbt.Result {
	old := runtime.GOMAXPROCS(s.Procs)
	defer runtime.GOMAXPROCS(old)
	srv, err := startServer(s.Unix, s.Encrypt, c38Handler, rpc.ServerWithMaxWorkers(s.MaxWorkers))
	if err != nil {
		pbt.Inconclusive("cannot start server: %v", err)
	}
	defer srv.close()
	clients := make([]rpc.Client, s.Clients)
	for i := range clients {
		clients[i] = newClient(s.Encrypt)
	}
	defer func() {
		for _, c := range clients {
			_ = c.Close()
		}
	}()
	start := time.Now()
	closedAt := make(chan struct{})
	if s.CloseWho != "" {
		go func() {
			time.Sleep(time.Duration(s.CloseUs) * time.Microsecond)
			close(closedAt)
			if s.CloseWho == "client" {
				for _, c := range clients {
					_ = c.Close()
				}
			} else {
				_ = srv.srv.Close()
			}
		}()
	}
	var mu sync.Mutex
	var firstErr error
	fail := func(format string, a ...any) {
		mu.Lock()
		if firstErr == nil {
			firstErr = fmt.Errorf(format, a...)
		}
		mu.Unlock()
	}
	var raced, ok, own, ctxe, conne int
	var wg sync.WaitGroup
	for wi, w := range s.Workers {
		wg.Add(1)
		go func(wi int, w c38Worker) {
			defer wg.Done()
			cl := clients[w.Client]
			for ci, c := range w.Calls {
				if s.CloseWho == "server" {
					select {
					case <-closedAt: // nothing listens any more; further calls would only wait for their deadlines
						return
					default:
					}
				}
				key := nextKey()
				payload := payloadFor(key, c.PayloadLen)
				rest := make([]byte, 8, 8+len(payload))
				rest[0] = map[string]byte{"echo": 'e', "error": 'r', "sleep": 's', "wait": 'w'}[c.Behaviour]
				binary.LittleEndian.PutUint32(rest[4:], uint32(c.SleepUs))
				rest = append(rest, payload...)
				req := cl.GetRequest()
				req.BodyFormatTL2 = c.TL2
				req.Body = append(req.Body, makeBody(key, rest)...)
				ctx, cancel := context.Background(), context.CancelFunc(func() {})
				if c.TimeoutUs > 0 {
					ctx, cancel = context.WithTimeout(ctx, time.Duration(c.TimeoutUs)*time.Microsecond)
				}
				if c.CancelUs > 0 {
					var cancel2 context.CancelFunc
					ctx, cancel2 = context.WithCancel(ctx)
					tm := time.AfterFunc(time.Duration(c.CancelUs)*time.Microsecond, cancel2)
					defer tm.Stop()
					defer cancel2()
				}
				resp, err := cl.Do(ctx, srv.ep.network, srv.ep.address, req)
				cancel()
				where := fmt.Sprintf("worker %d call %d (key %d, %s, payload %d, sleep %dus, timeout %dus, cancel %dus)", wi, ci, key, c.Behaviour, c.PayloadLen, c.SleepUs, c.TimeoutUs, c.CancelUs)
				closing := false
				select {
				case <-closedAt:
					closing = true
				default:
				}
				var re *rpc.Error
				switch {
				case err == nil:
					if c.Behaviour == "error" || c.Behaviour == "wait" {
						fail("%s: succeeded although its handler never produces a response (body %x...)", where, head(resp.Body))
					} else if want := transform(key, payload); resp == nil || !bytes.Equal(resp.Body, want) {
						got := []byte(nil)
						if resp != nil {
							got = resp.Body
						}
						fail("%s: got a response that is not its own: %x... (len %d), expected %x... (len %d)", where, head(got), len(got), head(want), len(want))
					}
					mu.Lock()
					ok++
					mu.Unlock()
				case errors.As(err, &re):
					switch {
					case re.Code == errCodeFor(key) && re.Description == fmt.Sprintf("err-%d", key) && c.Behaviour == "error":
						mu.Lock()
						own++
						mu.Unlock()
					case re.Code == tlerrorcodes.Timeout && (c.TimeoutUs > 0) && (c.Behaviour == "sleep" || c.Behaviour == "wait"):
						// server-side timeout of its own (server-adjusted) deadline
					case closing && s.CloseWho == "server" && (re.Code == tlerrorcodes.GracefulShutdown || re.Code == tlerrorcodes.Unknown && strings.Contains(re.Description, "context canceled")):
						// handler context cancelled because the server is closing
					default:
						fail("%s: got an rpc.Error that is not its own: (%d, %q)", where, re.Code, re.Description)
					}
				case errors.Is(err, context.DeadlineExceeded) && c.TimeoutUs > 0:
					mu.Lock()
					ctxe++
					mu.Unlock()
				case errors.Is(err, context.Canceled) && c.CancelUs > 0:
					mu.Lock()
					ctxe++
					mu.Unlock()
				case (errors.Is(err, rpc.ErrClientClosed) || errors.Is(err, rpc.ErrClientConnClosedSideEffect) || errors.Is(err, rpc.ErrClientConnClosedNoSideEffect)) && s.CloseWho != "":
					mu.Lock()
					conne++
					mu.Unlock()
				default:
					fail("%s: unexpected error %T %v (close=%q closing=%v)", where, err, err, s.CloseWho, closing)
				}
				if (c.TimeoutUs > 0 || c.CancelUs > 0) && c.Behaviour == "sleep" {
					mu.Lock()
					raced++
					mu.Unlock()
				}
				if resp != nil && c.Put {
					cl.PutResponse(resp)
				}
			}
		}(wi, w)
	}
	done := make(chan struct{})
	go func() { wg.Wait(); close(done) }()
	select {
	case <-done:
	case <-time.After(40 * time.Second):
		// every call either completes on its own (echo/error), or has a deadline / cancellation of at most 3 s
		return pbt.Fail("pending calls did not return within 40 s (close=%q after %dus, started %v ago)", s.CloseWho, s.CloseUs, time.Since(start))
	}
	if firstErr != nil {
		return pbt.Result{Err: firstErr}
	}
	cls := []string{}
	if raced > 0 {
		cls = append(cls, "timeout-races-response")
	}
	if s.CloseWho != "" {
		cls = append(cls, "close-"+s.CloseWho)
	}
	if ctxe > 0 {
		cls = append(cls, "ctx-error-seen")
	}
	if conne > 0 {
		cls = append(cls, "conn-error-seen")
	}
	if own > 0 {
		cls = append(cls, "own-error-seen")
	}
	total := 0
	for _, w := range s.Workers {
		total += len(w.Calls)
	}
	return pbt.Result{NonTrivial: len(s.Workers) >= 2 && total >= 6 && ok > 0, Classes: cls}
}

func head(b []byte) []byte {
	if len(b) > 16 {
		return b[:16]
	}
	return b
}

func TestC38OwnResponses(t *testing.T) {
	pbt.Run(t, "rpc-concurrent-calls", pbt.Scale(800, 40000), genC38, runC38)
}
