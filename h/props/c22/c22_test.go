package c22

import (
	"encoding/json"
	"fmt"
	"io/fs"
	"os"
	"path/filepath"
	"strings"
	"testing"

	"github.com/VKCOM/tl/internal/tlast"
	"github.com/VKCOM/tl/verifh/pbt"
	"pgregory.net/rapid"
)

// ---- C22: the TL2 formatter round-trips and is idempotent ----------------------------------------------------

// The generator writes TL2 text from the grammar in internal/tlast/tlparser_tl2.go (token by token, with random
// layout and comments); whatever the parser accepts is in the domain.

type tl2Case struct {
	Text string `json:"text"`
}

type gen struct {
	rt   *rapid.T
	toks []string // "\x00" marks a gap where layout is chosen; comments are inserted as their own tokens
}

func (g *gen) n(lo, hi int, label string) int { return rapid.IntRange(lo, hi).Draw(g.rt, label) }
func (g *gen) p(percent int, label string) bool {
	return rapid.IntRange(0, 99).Draw(g.rt, label) < percent
}
func (g *gen) emit(s ...string) { g.toks = append(g.toks, s...) }

var lcNames = []string{"a", "b", "x", "y", "value", "items", "fieldsMask", "n", "key", "int32", "string", "bool", "bit", "t", "longFieldNameNumberOne", "anotherQuiteLongFieldName", "type", "alias"}
var ucNames = []string{"A", "B", "None", "Some", "Int", "Color", "VeryLongConstructorNameForWrapping", "X1", "T"}
var nsNames = []string{"", "", "", "ns.", "service1.", "aVeryLongNamespaceName."}

func (g *gen) lc() string { return rapid.SampledFrom(lcNames).Draw(g.rt, "lc") }
func (g *gen) uc() string { return rapid.SampledFrom(ucNames).Draw(g.rt, "uc") }
func (g *gen) typeName() string {
	ns := rapid.SampledFrom(nsNames).Draw(g.rt, "ns")
	if g.p(25, "ucname") {
		return ns + g.uc()
	}
	return ns + g.lc()
}

func (g *gen) comment() {
	if g.p(12, "comment") {
		own := ""
		if g.p(60, "ownline") {
			own = "\n" // a comment on its own line belongs to what follows
		}
		g.emit(own + "//" + rapid.SampledFrom([]string{"", " note", " two  words ", "/ slashes // inside", " ключ", " | a = b;", "\t tab"}).Draw(g.rt, "ctext") + "\n")
	}
}

func (g *gen) typeRef(depth int) {
	if depth < 3 && g.p(20, "bracket") {
		g.emit("[")
		if g.p(50, "index") {
			g.arg(depth + 1)
		}
		g.emit("]")
		g.typeRef(depth + 1)
		return
	}
	g.emit(g.typeName())
	if depth < 3 && g.p(25, "targs") {
		g.emit("<")
		k := g.n(1, 3, "nargs")
		for i := 0; i < k; i++ {
			if i > 0 {
				g.emit(",")
			}
			g.arg(depth + 1)
		}
		g.emit(">")
	}
}

func (g *gen) arg(depth int) {
	if g.p(35, "number") {
		g.emit(fmt.Sprint(rapid.SampledFrom([]uint32{0, 1, 2, 3, 10, 255, 4294967295}).Draw(g.rt, "num")))
		return
	}
	g.typeRef(depth)
}

func (g *gen) field() {
	g.comment()
	switch g.n(0, 9, "fname") {
	case 0:
		g.emit("_")
	case 1:
		g.emit("_" + g.lc())
	case 2:
		g.emit(g.uc())
	default:
		g.emit(g.lc())
		if g.p(30, "optional") {
			g.emit("?")
		}
	}
	g.emit(":")
	g.typeRef(0)
	if g.p(10, "rightcomment") {
		g.emit("// right" + "\n")
	}
}

func (g *gen) fields(lo, hi int) {
	k := g.n(lo, hi, "nfields")
	for i := 0; i < k; i++ {
		g.field()
	}
}

func (g *gen) ctor() {
	g.comment()
	if g.p(5, "typector") {
		g.emit("Type")
	} else if g.p(80, "ucctor") {
		g.emit(g.uc())
	} else {
		g.emit(g.lc())
	}
	switch g.n(0, 3, "ctorkind") {
	case 0: // no fields
	case 1: // alias variant
		g.typeRef(0)
	default:
		g.fields(1, 6)
	}
}

func (g *gen) structDef() {
	switch g.n(0, 5, "defkind") {
	case 0, 1, 2:
		g.fields(0, 12)
	case 3: // union with one variant: needs the leading bar
		g.emit("|")
		g.ctor()
	default:
		if g.p(40, "leadingbar") {
			g.emit("|")
		}
		k := g.n(2, 6, "nvariants")
		for i := 0; i < k; i++ {
			if i > 0 {
				g.emit("|")
			}
			g.ctor()
		}
	}
}

func (g *gen) magic(always bool) {
	if always || g.p(30, "magic") {
		g.emit(fmt.Sprintf("#%08x", rapid.Uint32Range(1, 0xffffffff).Draw(g.rt, "magicv")))
	}
}

func (g *gen) combinator() {
	g.comment()
	k := g.n(0, 3, "nann") - 1
	for i := 0; i < k; i++ {
		g.emit("@" + rapid.SampledFrom([]string{"read", "write", "any", "kphp", "internal"}).Draw(g.rt, "ann"))
	}
	g.emit(g.typeName())
	if g.p(30, "function") {
		g.magic(true)
		g.fields(0, 8)
		g.emit("=>")
		switch g.n(0, 3, "retkind") {
		case 0:
			g.emit("<=>")
			g.typeRef(0)
		case 1:
			g.typeRef(0)
		default:
			g.structDef()
		}
	} else {
		g.magic(false)
		if g.p(25, "templates") {
			g.emit("<")
			k := g.n(1, 3, "ntempl")
			for i := 0; i < k; i++ {
				if i > 0 {
					g.emit(",")
				}
				g.emit(rapid.SampledFrom([]string{"t", "n", "X", "key"}).Draw(g.rt, "tname")+fmt.Sprint(i), ":", rapid.SampledFrom([]string{"Type", "#"}).Draw(g.rt, "cat"))
			}
			g.emit(">")
		}
		if g.p(25, "alias") {
			g.emit("<=>")
			g.typeRef(0)
		} else {
			g.emit("=")
			g.structDef()
		}
	}
	g.emit(";")
}

func (g *gen) text() string {
	var sb strings.Builder
	for i, t := range g.toks {
		sb.WriteString(t)
		if strings.HasSuffix(t, "\n") {
			continue
		}
		next := ""
		if i+1 < len(g.toks) {
			next = g.toks[i+1]
		}
		tight := t == "<" || t == "[" || next == ">" || next == "," || next == "]" || next == "<" || t == "]" || next == ":" || t == ":" || next == "?" || strings.HasPrefix(next, "#") && len(next) == 9
		switch rapid.IntRange(0, 11).Draw(g.rt, "gap") { // 0 (what shrinking prefers) is the plain layout
		case 8:
			sb.WriteString("\n")
		case 9:
			sb.WriteString("\n\t")
		case 10:
			sb.WriteString("  ")
		case 11:
			if !tight {
				sb.WriteString(" ")
			} else {
				sb.WriteString("\t")
			}
		default:
			if !tight {
				sb.WriteString(" ")
			}
		}
	}
	return sb.String()
}

func genCase(rt *rapid.T) tl2Case {
	g := &gen{rt: rt}
	k := g.n(1, 5, "ncomb")
	for i := 0; i < k; i++ {
		g.combinator()
	}
	return tl2Case{Text: g.text()}
}

// shape is the declaration content of a parsed file: its JSON form with positions and comments removed and empty
// lists equated with absent ones. (It works on a copy: the AST shares slices, and clearing comments in place would
// change what is formatted afterwards.)
func shape(f tlast.TL2File) string {
	b, err := json.Marshal(f)
	if err != nil {
		return "unmarshalable: " + err.Error()
	}
	var v any
	if err := json.Unmarshal(b, &v); err != nil {
		return "unmarshalable: " + err.Error()
	}
	var strip func(v any) any
	strip = func(v any) any {
		switch x := v.(type) {
		case map[string]any:
			for k, e := range x {
				if strings.HasPrefix(k, "PR") || k == "CommentBefore" || k == "CommentRight" {
					delete(x, k)
					continue
				}
				x[k] = strip(e)
			}
			return x
		case []any:
			if len(x) == 0 {
				return nil
			}
			for i := range x {
				x[i] = strip(x[i])
			}
			return x
		}
		return v
	}
	out, _ := json.Marshal(strip(v))
	return string(out)
}

func parse(text string) (f tlast.TL2File, err error) {
	defer func() {
		if r := recover(); r != nil {
			err = fmt.Errorf("parser panicked: %v", r)
		}
	}()
	return tlast.ParseTL2(text)
}

func format(f tlast.TL2File, canonical bool) (s string, err error) {
	defer func() {
		if r := recover(); r != nil {
			err = fmt.Errorf("formatter panicked: %v", r)
		}
	}()
	var sb strings.Builder
	if canonical {
		f.Print(&sb, tlast.NewCanonicalFormatOptions())
	} else {
		f.Print(&sb, tlast.NewDefaultFormatOptions())
	}
	return sb.String(), nil
}



func checkC22(c tl2Case) pbt.Result {
	f0, err := parse(c.Text)
	if err != nil {
		if strings.Contains(err.Error(), "panicked") {
			return pbt.Result{Classes: []string{"parser-panicked"}} // C19's business
		}
		return pbt.Result{Classes: []string{"not-accepted-by-the-parser"}}
	}
	want := shape(f0)
	cls := []string{"parsed"}
	multiline := false
	for _, canonical := range []bool{false, true} {
		mode := map[bool]string{false: "default", true: "canonical"}[canonical]
		s1, err := format(f0, canonical)
		if err != nil {
			return pbt.Fail("[%s options] %v\n--- input ---\n%s", mode, err, c.Text)
		}
		f1, err := parse(s1)
		if err != nil {
			return pbt.Fail("[%s options] formatted text does not parse: %v\n--- input ---\n%s\n--- formatted ---\n%s", mode, err, c.Text, s1)
		}
		if got := shape(f1); got != want {
			return pbt.Fail("[%s options] formatted text parses to different declarations\n--- input ---\n%s\n--- formatted ---\n%s\n--- want ---\n%s\n--- got ---\n%s", mode, c.Text, s1, want, got)
		}
		s2, err := format(f1, canonical)
		if err != nil {
			return pbt.Fail("[%s options] second formatting: %v", mode, err)
		}
		if s2 != s1 {
			return pbt.Fail("[%s options] formatting is not idempotent\n--- input ---\n%s\n--- first ---\n%s\n--- second ---\n%s", mode, c.Text, s1, s2)
		}
		if !canonical && strings.Count(s1, "\n") > len(f0.Combinators) {
			multiline = true
		}
	}
	hasUnion, hasComment := false, strings.Contains(c.Text, "//")
	for _, cb := range f0.Combinators {
		if !cb.IsFunction && cb.TypeDecl.Type.StructType.IsUnionType || cb.IsFunction && cb.FuncDecl.ReturnType.StructType.IsUnionType {
			hasUnion = true
		}
	}
	if multiline {
		cls = append(cls, "wrapped-lines")
	}
	if hasUnion {
		cls = append(cls, "union")
	}
	if hasComment {
		cls = append(cls, "comments")
	}
	return pbt.Result{NonTrivial: len(f0.Combinators) >= 2 || multiline || hasUnion, Classes: cls}
}

func TestC22Formatter(t *testing.T) {
	pbt.Run(t, "tl2-formatter", pbt.Scale(30000, 600000), genCase, checkC22)
}

// the repository's own TL2 files are in the domain too
func TestC22RepoFiles(t *testing.T) {
	pbt.Enumerate(t, "tl2-formatter-repo-files", func(yield func(tl2Case) bool) {
		filepath.WalkDir("/repo", func(path string, d fs.DirEntry, err error) error {
			if err != nil || d.IsDir() || !strings.HasSuffix(path, ".tl2") {
				return nil
			}
			if b, err := os.ReadFile(path); err == nil && !yield(tl2Case{Text: string(b)}) {
				return fs.SkipAll
			}
			return nil
		})
	}, checkC22)
}
