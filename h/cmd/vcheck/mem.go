package main

import (
	"fmt"
	"os"
	"strconv"
	"strings"
)

// maxChildRSS bounds the resident memory of one child process (VERIF_MAXRSS_MB overrides; default 8 GiB).
var maxChildRSS = func() int64 {
	if v, err := strconv.ParseInt(os.Getenv("VERIF_MAXRSS_MB"), 10, 64); err == nil && v > 0 {
		return v << 20
	}
	return 8 << 30
}()

func rssOf(pid int) int64 {
	b, err := os.ReadFile(fmt.Sprintf("/proc/%d/statm", pid))
	if err != nil {
		return 0
	}
	f := strings.Fields(string(b))
	if len(f) < 2 {
		return 0
	}
	pages, _ := strconv.ParseInt(f[1], 10, 64)
	return pages * int64(os.Getpagesize())
}
