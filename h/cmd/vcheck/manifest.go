package main

import (
	"encoding/json"
	"fmt"
	"os"
	"sort"
)

type naEntry struct {
	ID     string `json:"property_id"`
	Reason string `json:"reason"`
}

var notApplicable = []naEntry{
	{"C32", "deciding it means executing generated PHP; the sandbox has no php/kphp interpreter and none can be fetched (DESIGN.md section 5)"},
}

// pending lists properties whose checks are not built yet (kept current so that MANIFEST.json is always valid).
var pending = map[string]string{
	"C06": "check designed (DESIGN.md section 4) but not built yet; no claim is made for it in this state",
	"C11": "check designed (DESIGN.md section 4) but not built yet; no claim is made for it in this state",
	"C12": "check designed (DESIGN.md section 4) but not built yet; no claim is made for it in this state",
	"C14": "check designed (DESIGN.md section 4) but not built yet; no claim is made for it in this state",
	"C15": "check designed (DESIGN.md section 4) but not built yet; no claim is made for it in this state",
	"C16": "check designed (DESIGN.md section 4) but not built yet; no claim is made for it in this state",
	"C21": "check designed (DESIGN.md section 4) but not built yet; no claim is made for it in this state",
	"C22": "check designed (DESIGN.md section 4) but not built yet; no claim is made for it in this state",
	"C23": "check designed (DESIGN.md section 4) but not built yet; no claim is made for it in this state",
	"C24": "check designed (DESIGN.md section 4) but not built yet; no claim is made for it in this state",
	"C25": "check designed (DESIGN.md section 4) but not built yet; no claim is made for it in this state",
	"C26": "check designed (DESIGN.md section 4) but not built yet; no claim is made for it in this state",
	"C27": "check designed (DESIGN.md section 4) but not built yet; no claim is made for it in this state",
	"C28": "check designed (DESIGN.md section 4) but not built yet; no claim is made for it in this state",
	"C29": "check designed (DESIGN.md section 4) but not built yet; no claim is made for it in this state",
	"C30": "check designed (DESIGN.md section 4) but not built yet; no claim is made for it in this state",
	"C31": "check designed (DESIGN.md section 4) but not built yet; no claim is made for it in this state",
	"C34": "check designed (DESIGN.md section 4) but not built yet; no claim is made for it in this state",
}

func printManifest() {
	ids := []string{}
	for id := range specs {
		ids = append(ids, id)
	}
	sort.Strings(ids)
	checks := []map[string]any{}
	for _, id := range ids {
		s := specs[id]
		checks = append(checks, map[string]any{
			"property_id":         id,
			"quick_cmd":           "bin/vcheck " + id + " --tier quick",
			"thorough_cmd":        "bin/vcheck " + id + " --tier thorough",
			"evidence_file":       "/verif/evidence/" + id + ".json",
			"replay_cmd_template": "bin/vcheck " + id + " --replay {path}",
			"engine":              "vcheck",
			"level_claimed":       map[string]any{"category": "exploration", "text": s.LevelText, "design_ref": "DESIGN.md section 4, " + id},
			"level_note":          s.LevelNote,
			"technique":           s.Technique,
		})
	}
	na := append([]naEntry{}, notApplicable...)
	pids := []string{}
	for id := range pending {
		pids = append(pids, id)
	}
	sort.Strings(pids)
	for _, id := range pids {
		if _, ok := specs[id]; !ok {
			na = append(na, naEntry{id, pending[id]})
		}
	}
	m := map[string]any{
		"version":   1,
		"setup_cmd": "cd /verif/h && env GOFLAGS=-mod=mod GOPROXY=off GOWORK=off sh -c 'G=/root/go/pkg/mod/golang.org/toolchain@v0.0.1-go1.24.0.linux-amd64/bin/go; if [ -x $G ]; then GOTOOLCHAIN=local $G build -o ../bin/vcheck ./cmd/vcheck; else go build -o ../bin/vcheck ./cmd/vcheck; fi'",
		"hooks": map[string]any{
			"guard":            "verif",
			"enable":           "go build/test -tags verif -overlay /verif/overlay/overlay.json (export-only files mapped into /repo package directories; no file of /repo is edited)",
			"baseline_off_cmd": "cd /repo && GOFLAGS=-mod=mod go test -vet=off -count=1 -timeout 25m ./...",
			"source_commits":   hookCommits,
			"add_only":         true,
		},
		"engines": []map[string]any{{
			"name": "vcheck", "path": "/verif/h/cmd/vcheck",
			"serves_properties": ids,
			"kind_free_text":    "Go driver: rebuilds the needed parts of /repo (and, for codegen properties, tl2gen/tlgen plus freshly generated code) from the working tree, runs rapid-based property tests / state machines / native fuzz targets in child processes, aggregates counts into evidence, saves shrunk failing cases as replay files",
		}},
		"checks":         checks,
		"not_applicable": na,
		"notes":          "All checks are property-based tests (pgregory.net/rapid v1.3.0: generators, state machines, exhaustive small-range enumeration) against explicit oracles; the thorough tier of C19/C20 adds a native go test -fuzz campaign with the same oracle. Every run is a function of VERIF_SEED (default 1) except the native fuzz campaigns, whose findings are kept as replay files. Exit 2 = inconclusive (infrastructure), never a violation. known_findings.json lists the genuine defects found (status known / fixed, each with a sentinel replay).",
	}
	b, _ := json.MarshalIndent(m, "", " ")
	fmt.Println(string(b))
	_ = os.Stdout.Sync()
}

var hookCommits = []string{"1db62cac", "88944cae"}
