package main

import "time"

func parserSpec(lang, run, fuzz string) *spec {
	rapidUnits := hTest("props/c19", run, hOpts{Overlay: true, QShards: 8, TShards: 16, QTimeout: 5 * time.Minute, TTimeout: 60 * time.Minute})
	return &spec{
		LevelText:   "rapid-generated inputs from five generators (raw bytes; token soup over the lexer alphabet incl. non-UTF-8 comments, \\r, section markers, #hex; repository " + lang + " statements; those statements under 1-3 token/byte edits; truncations) x lexer options, plus EVERY prefix of every repository statement; each parse must return (tree, nil) or an error that is a *ParseError whose Outer/Begin/End positions refer to the parsed text with 0<=Begin<=End<=len(text), and printing the error (ConsolePrint, PrintWarning) must not panic nor report a corrupted context; any panic (incl. the parsers' own log.Panicf invariants) is a violation. Thorough adds 3*10^6 cases.",
		LevelNote:   "Trusted: overlay accessor /verif/overlay/tlast/verif_export.go (exposes Position fields and a token counter). Positions are compared against the text handed to the parser.",
		Technique:   "property-based testing / grammar-aware fuzzing with rapid (structured mutation of repository schemas, token soup, exhaustive prefixes) plus, in the thorough tier, a native go test -fuzz campaign seeded with the repository's statements; validity-predicate oracle on the result",
		Rule:        "non-trivial iff the text lexes into >=5 tokens; distinct by (text, lexer options); classes parsed / lexer-error / parser-error are reported with floors of 15% each for parsed and parser-error",
		Assumptions: []string{"every parse error must carry a position (be or wrap *tlast.ParseError) - this is how cmd/tlgen and cmd/tl2gen print them"},
		Floors:      []floor{{"parsed", 0.15, ""}, {"parser-error", 0.15, ""}},
		Prepare: func(id, tier string, seed int64, replay string) ([]unit, error) {
			units, err := rapidUnits(id, tier, seed, replay)
			if err != nil || tier != "thorough" || replay != "" {
				return units, err
			}
			// thorough tier: a native coverage-guided campaign with the same oracle (Go's fuzzing engine cannot be seeded:
			// what it finds is kept as a replay file, its exec count is reported as class native-fuzz-execs)
			u := units[0]
			u.Name, u.Fuzz, u.FuzzTime, u.Shards, u.Timeout = "native-fuzz-"+fuzz, "^"+fuzz+"$", 4*time.Minute, 1, 12*time.Minute
			return append(units, u), nil
		},
	}
}

func init() {
	specs["C19"] = parserSpec("TL1", "^TestC19", "FuzzC19TL1")
	specs["C20"] = parserSpec("TL2", "^TestC20", "FuzzC20TL2")
}
