package main

func init() {
	specs["C02"] = genSpec(
		"For every TL1-capable item: valid encodings (bare and boxed) under 1-2 structured byte edits (byte flips, word replacement from a table of hostile constants and Bool/true tags, truncation, insertion, deletion, setting a zero byte such as string padding to non-zero, re-encoding a tiny string in the medium form, duplication) and raw random bytes are fed to ReadTL1/ReadTL1Boxed; whenever the reader accepts, the remainder must be a suffix of the input and writing the decoded value must reproduce exactly the consumed prefix; for types containing map-backed dictionaries the re-encoding must instead be a canonical fixed point not longer than the accepted prefix.",
		"property-based testing (rapid): mutation-based input generation with a canonical re-encoding oracle",
		"non-trivial iff the input is a mutated valid encoding of >= 8 bytes (either verdict); classes accepted / rejected are reported with floors",
		[]string{"for map-backed dictionaries the exact canonicalisation of the accepted input (sort by key, drop duplicates) is approximated by the fixed-point + not-longer rule"},
		[]floor{{"accepted", 0.15, ""}, {"rejected", 0.2, ""}}, gOpts{})
	specs["C08"] = genSpec(
		"Every reader (TL1 bare, TL1 boxed, TL2, JSON) of every item is run on hostile input: mutated valid encodings (incl. count words 0x7FFFFFFF/0xFFFFFFFF/0x40000000+k, TL2 huge-form sizes up to 2^63, truncations), raw bytes, and JSON texts under token-level edits (deep nesting, long digit strings, dropped/duplicated tokens). Oracle: the call returns (a recovered panic is a violation; a fatal stack overflow kills the shard and is attributed to the journaled case), bytes allocated during the call (runtime.MemStats.TotalAlloc delta) stay below 1 MiB + 2048 x input length (code is generated with the default --checkLengthSanity=true), wall time below 10 s.",
		"fuzzing-style property test (rapid): mutation-based hostile inputs with totality, allocation-bound and time-bound oracles",
		"non-trivial iff the input is >= 8 bytes; classes per reader and verdict",
		[]string{"allocation is measured process-wide with a single test goroutine; the bound 1 MiB + 2048 x len(input) is far above what a length-sanity-checked reader needs and far below an unchecked count"},
		[]floor{{"reader-tl2", 0.15, ""}, {"reader-json", 0.15, ""}, {"rejected", 0.2, ""}}, gOpts{})
	specs["C09"] = genSpec(
		"Stateful property: one object per history receives 2..7 steps, each decoding a valid (or, in 20% of steps, mutated) TL1 / TL1-boxed / TL2 / JSON encoding of an unrelated random value of the same type, or calling Reset; after every step the verdict must equal that of a fresh object given the same input, after every successful decode all encodings (TL1, TL2, JSON) of the reused object must equal the fresh object's, and after Reset they must equal a new object's.",
		"property-based testing (rapid): stateful histories against the fresh-object oracle",
		"non-trivial iff >= 3 successful decodes and some later input is shorter than an earlier one (smaller value over larger state)",
		[]string{"the contents of an object after a failed decode are unspecified; it keeps being reused and the next successful decode is compared"},
		[]floor{{"later-value-smaller", 0.3, ""}}, gOpts{})
	specs["C10"] = genSpec(
		"For every item whose []byte variant is a distinct Go type: the TL1 / TL2 / JSON encoding of a random string-variant value (optionally mutated) is decoded by both variants; verdicts must agree, and all three encodings of the two decoded objects must be identical (for mutated inputs only for types without map-backed dictionaries, whose order legitimately differs).",
		"property-based testing (rapid): differential oracle between the two generated variants",
		"non-trivial iff the input differs from the zero value's encoding",
		nil, []floor{{"accepted", 0.5, ""}}, gOpts{})
	specs["C13"] = genSpec(
		"Generic half (every TL2-enabled item of the repository schemas): the top-level object re-encoded with a huge-form size, the empty object as an explicit zero mask (01 00), must decode to the same value (minimal re-encoding identical) leaving appended bytes untouched; a valid encoding with 1..n bytes cut from its end (declared size exceeds the remaining input) must be rejected. Schema-evolution half (hand-written TL2 schema pairs generated as two packages in one binary): values written by the newer version must be read by the older one and vice versa, equal on the common fields.",
		"property-based testing (rapid): metamorphic re-encodings + cross-version differential",
		"non-trivial iff the re-encoding applies to the value (non-empty object for huge-size / oversize); distinct by case",
		[]string{"nested non-minimal encodings are exercised through the evolution pairs and C11's reference encoder, not by the generic half"},
		nil, gOpts{})
	specs["C17"] = genSpec(
		"Exhaustive over the registry of each generated set: every item is looked up by name and by tag, its name/tag/function flag/annotation bits/TL1-TL2 availability are compared with what a direct tlast parse of the schema files says (tag explicit or CRC32, modifiers, --tl2WhiteList), names and non-zero tags must be unique, objects created through both factories must report the item's name and tag (for union types: one of the type's constructors with that constructor's tag), and boxed encodings of several random values must start with the reported tag; every parameter-free combinator of the schema must be registered.",
		"exhaustive enumeration of generated registries against an independently parsed schema (test-oracle differential)",
		"one case per registry item plus one per schema combinator missing from the registry; all are non-trivial; exhaustive: true per schema set",
		[]string{"expected items come from internal/tlast (parser + Crc32), whose tag rule is checked independently by C23"},
		nil, gOpts{QShards: 1, TShards: 1})
	specs["C18"] = genSpec(
		"For every item and (seed, size/mask profile): FillRandom must return (60 s watchdog; runaway recursion dies on a 256 MiB stack limit and is attributed through the journal), the value must be accepted by WriteTL1General (error = violation), WriteTL2 and WriteJSONGeneral must not panic, a second run with the same seed must give byte-identical TL1/TL2/JSON, and for functions the output of FillRandomResultTL1 must be accepted and fully consumed by the result reader.",
		"property-based testing (rapid): termination/validity/determinism oracle over seeds and generator profiles",
		"non-trivial iff the JSON of the value is >= 8 bytes",
		nil, nil, gOpts{})
	specs["C07"] = genSpec(
		"For every function item: a random request (its # fields shape the result) and a result produced by FillRandomResultTL1 under a second seed/profile; TL1->JSON->TL1 and TL1->TL2->TL1 must reproduce the result bytes and consume them exactly, TL2->JSON must equal TL1->JSON, JSON->TL2 must equal TL1->TL2, and the typed path found by reflection (ReadResultTL1 into the typed result, then WriteResultTL1 / WriteResultJSON / WriteResultTL2) must produce the same bytes as the transcoders.",
		"property-based testing (rapid): mutual-consistency oracle over the six transcoders and the typed path",
		"non-trivial iff the TL1 result is >= 8 bytes",
		[]string{"results containing NaN are compared on JSON only"},
		[]floor{{"typed-path", 0.5, ""}}, gOpts{})
	specs["C43"] = genSpec(
		"For every Set*/Clear*/IsSet* triple found by reflection on every generated struct (local and external field masks, nil and non-nil mask pointer): on a random object, Set makes IsSet true and the field arrives (present, with the set value) in a fresh object through TL1, TL2 and JSON; Clear makes IsSet false and the field absent through all three; all other exported fields and the presence of all other accessors stay unchanged (accessors coupled by the same mask bit, detected by probing on an empty object, excepted); Set followed by Clear on an empty object gives back an object encoded like an empty one.",
		"property-based testing (rapid): accessor laws checked through reflection and decode-back oracles",
		"non-trivial iff the struct has >= 2 accessor triples; classes report external-mask accessors",
		[]string{"uint32 fields (masks/sizes) are not part of the 'other fields unchanged' comparison: the accessor is supposed to update its mask word"},
		[]floor{{">=2-accessors", 0.2, ""}}, gOpts{})
}

func init() {
	specs["C12"] = genSpec(
		"For every item of the generated registries (repository schemas cases, goldmaster, schema in thorough, plus the harness' kitchen-sink schema) the interpreter's kernel is compiled from the same .tl files as cmd/tl2client does and three kinds of byte strings are fed to both sides in TL1 bare, TL1 boxed and TL2: bytes written by generated code from harness-generated values, bytes written by the interpreter from its own Random values, and mutated encodings. Verdicts must agree, both must consume the same length, and both re-encodings must be identical (TL2 with optimizeEmpty=false) and, for unmutated sources, equal to the input. Types the interpreter does not implement (CreateValue panics / no instance) are counted and skipped. Both sides under comparison are /repo code, so a defect common to both is invisible here (C11 covers that).",
		"property-based testing (rapid): differential check of two implementations on generated values and mutated byte strings",
		"non-trivial iff the input has >= 8 bytes and both accepted, or >= 4 bytes and both rejected; distinct by (schema set, item, format, source, value seed, edits)",
		[]string{"the interpreter is driven as cmd/tl2client and the repository's goldmaster stress test drive it (natArgs nil for top-level items, TL2 optimizeEmpty=false)"},
		[]floor{{"both-rejected", 0.10, ""}, {"source-interpreter", 0.10, ""}},
		gOpts{QSets: []string{"cases", "goldmaster", "sink"}, TSets: []string{"cases", "goldmaster", "sink", "schema"}}, // not casestl2: known findings F40, F12
	)
}

func init() {
	specs["C06"] = genSpec(
		"Values are drawn by the harness' reference generator over the schema (parsed again by the harness' own model); its reference JSON writer, written from the 'correspondence with JSON' chapter of TLPrimer, emits them in the canonical form and in every documented alternative form chosen per site (absent field = empty value and the reverse, numbers as decimal strings, strings as base64 objects, enums as objects, unions as strings or without value, Maybe with/without ok, a masked empty field left to its explicit bit, a local mask left out when the written fields imply it, true-fields as false when their bit is clear, dictionaries as arrays of pairs, other key orders). The generated ReadJSON must accept the text and the value's TL1 bytes must equal the reference encoder's. One documented invalid form per negative case (unknown key, duplicate key, array length different from its size parameter, ok:false with a value, and - for sets generated without TL2 - false for a true-field whose bit is set in an explicit mask) must be rejected.",
		"property-based testing (rapid): metamorphic relation between JSON forms, decided through an independent reference JSON writer and TL1 encoder",
		"non-trivial iff at least one alternative form was used (positive case) or the invalid form was placed (negative case); distinct by (schema set, item, value seed, form seed, violation, site)",
		[]string{"items the reference JSON writer does not model (unnamed fields in user combinators, dictionary keys other than string/int/long, multi-field repetitions) are counted and skipped", "reference values have unique sorted dictionary keys, no negative zero and no NaN payloads"},
		[]floor{{"accepted", 0.3, ""}},
		gOpts{QSets: []string{"sink", "casesnotl2", "cases"}, TSets: []string{"sink", "casesnotl2", "cases", "goldmaster"}, QRand: 1, TRand: 8},
	)
	specs["C11"] = genSpec(
		"Reference side: the schema is read again by the harness' own model and values are drawn by its generator. TL1: (1) reference bytes (refcodec: little-endian primitives, string length forms and padding, boxed tags including implicit CRC32 tags computed from the reference canonical form, local/external/nested field masks, size parameters, repetitions) must be accepted by generated readers exactly (7 appended bytes returned) and written back identically; (2) the same values enter generated code by name through canonical reference JSON and must leave it as the same TL1 bytes (catches a field order that is wrong consistently in reader and writer); (3) bytes written by generated code from harness values, and mutated encodings, must get the same verdict from the reference decoder, the same consumed length, and the reference re-encoding must reproduce what both accepted. TL2: (4) a reference TL2 writer written from TL2Primer (varlen sizes, one presence-mask byte before every 8 fields, variant index under bit 0, optional = masked fields, fm.N?true as bit, bool bytes, counted arrays, dictionaries as arrays of key/value objects, Maybe as union, minimal form) - generated WriteTL2 of the value read from reference TL1 bytes must equal it, and (5) generated ReadTL2 must accept the reference TL2 bytes exactly and yield the value whose TL1 bytes are the reference's.",
		"property-based testing (rapid): differential check against an independent reference implementation of the documented TL1 and TL2 formats, both directions plus mutated byte strings",
		"non-trivial iff the TL1 encoding has >= 12 bytes (accepted) or >= 8 bytes (rejected by both), or the TL2 encoding has >= 6 bytes; distinct by (schema set, item, direction, seeds, edits)",
		[]string{"no reference TL2 decoder: the TL2 accept set is probed with reference-written bytes only (mutated TL2 bytes are compared differentially in C12/C13)", "vector<Bool> is an array of bool bytes as in the kernel (the primer's transition chapter says bit arrays; see DESIGN.md 0.5)", "field-less constructors as registry items of their own, arrays of true, unnamed fields in user combinators are counted and skipped"},
		[]floor{{"both-rejected", 0.05, ""}, {"ref-to-gen", 0.2, ""}, {"tl2-write", 0.08, ""}},
		gOpts{QSets: []string{"sink", "cases"}, TSets: []string{"sink", "cases", "goldmaster"}, QRand: 1, TRand: 8},
	)
}
