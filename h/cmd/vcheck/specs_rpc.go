package main

import "time"

func init() {
	specs["C35"] = &spec{
		LevelText:   "rapid-generated packet streams (1..12 packets, body sizes 0..70000 incl. above the read buffer, random types, random flush grouping) are written through a real PacketConn into a harness-owned in-memory duplex connection after a real nonce+handshake exchange (encryption off / forced / required by addresses; protocol versions 0,1,2; read/write buffer sizes 1..32768) and read back on the peer PacketConn under scripted read chunking (1..70000 bytes per Read, cycled); clean streams must yield exactly the written (type, body) sequence and then io.EOF; with one post-handshake byte XOR-ed, every packet returned must equal the written packet at that index, no packet whose wire span (cipher block when encrypted) reaches the corrupted byte may be delivered, and the reader must end with an error that is not a clean EOF.",
		LevelNote:   "Trusted: the in-memory net.Conn of the harness. A corruption that escapes both the CRC32 and the sequence/length checks (probability about 2^-32 per case) would be a false alarm; none is expected at these case counts.",
		Technique:   "property-based testing (rapid): round-trip oracle over generated packet sequences x chunkings x handshake modes, plus single-byte fault injection with a prefix-equality oracle",
		Rule:        "non-trivial iff >=3 packets, >=1 body longer than one cipher block, and a read chunk shorter than the 12-byte header (header split across reads); distinct by the full case",
		Assumptions: []string{"packet types avoid the four types the connection consumes itself (nonce, handshake, ping, pong)", "protocol version 0 requires body sizes divisible by 4"},
		Floors:      []floor{{"encrypted", 0.3, ""}, {"plain", 0.15, ""}, {"corrupted", 0.3, ""}, {"header-split", 0.3, ""}},
		Prepare:     hTest("props/c35", "^TestC35", hOpts{QShards: 8, TShards: 16, QTimeout: 6 * time.Minute, TTimeout: 60 * time.Minute}),
	}
}
