package main

import (
	"crypto/sha256"
	"encoding/hex"
	"fmt"
	"io"
	"os"
	"path/filepath"
	"strings"
	"syscall"
	"time"
)

// genSet is one schema set + generator options for which Go code is generated and compiled from /repo's working tree.
type genSet struct {
	Name  string
	Files []string // absolute paths
	Args  []string // extra tl2gen arguments
	// Ephemeral sets (random schemas) are generated and compiled inside this run's work directory, which is removed at exit
	Ephemeral bool
}

const tls = "/repo/internal/tlcodegen/test/tls/"

var repoSets = map[string]genSet{
	"cases":      {Name: "cases", Files: []string{tls + "cases.tl"}, Args: []string{"--tl2WhiteList=*", "--generateByteVersions=cases_bytes.,cases.", "--generateRandomCode"}},
	"goldmaster": {Name: "goldmaster", Files: []string{tls + "goldmaster.tl", tls + "goldmaster2.tl", tls + "goldmaster3.tl"}, Args: []string{"--tl2WhiteList=*", "--generateByteVersions=ch_proxy.,ab.,memcache.", "--generateRandomCode"}},
	"schema":     {Name: "schema", Files: []string{tls + "schema.tl"}, Args: []string{"--tl2WhiteList=*", "--generateByteVersions=*", "--generateRandomCode", "--split-internal"}},
	"sink":       {Name: "sink", Files: []string{"/verif/schemas/sink.tl"}, Args: []string{"--tl2WhiteList=*", "--generateByteVersions=*", "--generateRandomCode"}},
	"sinksplit":  {Name: "sinksplit", Files: []string{"/verif/schemas/sink.tl"}, Args: []string{"--tl2WhiteList=*", "--generateByteVersions=*", "--generateRandomCode", "--split-internal"}},
	"f46":        {Name: "f46", Files: []string{"/verif/schemas/f46.tl"}, Args: []string{"--tl2WhiteList=*", "--generateByteVersions=*", "--generateRandomCode"}}, // only for the sentinel of known finding F46
	"casestl2":   {Name: "casestl2", Files: []string{tls + "cases.tl2"}, Args: []string{"--tl2WhiteList=*", "--generateByteVersions=cases_bytes.", "--generateRandomCode", "--checkLengthSanity=false"}},
	"casesnotl2": {Name: "casesnotl2", Files: []string{tls + "cases.tl"}, Args: []string{"--generateByteVersions=cases_bytes.", "--generateRandomCode"}},
}

var toolCache = map[string]string{}

// buildTool compiles a command of /repo (tl2gen, tlgen) from the working tree into this run's work directory.
func buildTool(name string) (string, error) {
	if p, ok := toolCache[name]; ok {
		return p, nil
	}
	out := filepath.Join(workDir, name)
	o, code, _ := runCmd("/repo", nil, 15*time.Minute, goBin, "build", "-o", out, "./cmd/"+name)
	if code != 0 {
		return "", fmt.Errorf("building %s from /repo failed:\n%s", name, tail(o, 30))
	}
	toolCache[name] = out
	return out, nil
}

func (s genSet) key() string {
	h := sha256.Sum256([]byte(strings.Join(append(append([]string{s.Name}, s.Args...), s.Files...), "\x00")))
	return s.Name + "-" + hex.EncodeToString(h[:4])
}

const glueTemplate = `package t

import (
	"os"
	"testing"

	"github.com/VKCOM/tl/verifh/gch"
	_ "github.com/VKCOM/tl/verifrun/NAME/factory"
BYTESIMPORT
NSIMPORTS
	"github.com/VKCOM/tl/verifrun/NAME/meta"
)

type item struct{ meta.TLItem }

func (i item) CreateObject() gch.Object          { return i.TLItem.CreateObject() }
func (i item) CreateObjectBytes() gch.Object     { return i.TLItem.CreateObjectBytes() }
func (i item) CreateFunction() gch.Function      { return i.TLItem.CreateFunction() }
func (i item) CreateFunctionBytes() gch.Function { return i.TLItem.CreateFunctionBytes() }
func (i item) AnnotationBits() uint32 {
	var b uint32
	for k, on := range []bool{i.AnnotationAny(), i.AnnotationInternal(), i.AnnotationKphp(), i.AnnotationRead(), i.AnnotationReadwrite(), i.AnnotationWrite()} {
		if on {
			b |= 1 << k
		}
	}
	return b
}

func wrap(it meta.TLItem) gch.Item {
	if it == nil {
		return nil
	}
	return item{it}
}

func TestGen(t *testing.T) {
	reg := &gch.Registry{SetName: os.Getenv("VERIF_GEN_SET")}
	for _, it := range meta.GetAllTLItems() {
		reg.Items = append(reg.Items, item{it})
	}
	reg.ByName = func(n string) gch.Item { return wrap(meta.FactoryItemByTLName(n)) }
	reg.ByTag = func(tag uint32) gch.Item { return wrap(meta.FactoryItemByTLTag(tag)) }
	gch.Main(t, reg)
}
`

// genBuild generates Go code for the set with the tl2gen of the working tree, compiles the glue test binary against
// /repo/pkg/basictl and the harness, and returns the path of a private copy of the binary.
func genBuild(s genSet) (string, error) {
	tl2gen, err := buildTool("tl2gen")
	if err != nil {
		return "", err
	}
	wroot := os.Getenv("VERIF_WORK_ROOT")
	if wroot == "" {
		wroot = "/var/tmp/verifwork"
	}
	W := filepath.Join(wroot, "gen", s.key())
	if s.Ephemeral {
		W = filepath.Join(workDir, "gen", s.key())
	}
	mod := filepath.Join(W, "verifrun")
	if err := os.MkdirAll(filepath.Join(W, "pkg", "basictl"), 0o755); err != nil {
		return "", err
	}
	if err := os.MkdirAll(mod, 0o755); err != nil {
		return "", err
	}
	lock, err := os.OpenFile(filepath.Join(W, ".lock"), os.O_CREATE|os.O_RDWR, 0o644)
	if err != nil {
		return "", err
	}
	defer lock.Close()
	if err := syscall.Flock(int(lock.Fd()), syscall.LOCK_EX); err != nil {
		return "", err
	}
	defer syscall.Flock(int(lock.Fd()), syscall.LOCK_UN)

	gomod := "module github.com/VKCOM/tl/verifrun\n\ngo 1.24.0\n\nrequire (\n\tgithub.com/VKCOM/tl v0.0.0\n\tgithub.com/VKCOM/tl/verifh v0.0.0\n\tpgregory.net/rapid v1.3.0\n)\n\nreplace github.com/VKCOM/tl => /repo\n\nreplace github.com/VKCOM/tl/verifh => /verif/h\n"
	if err := writeIfChanged(filepath.Join(mod, "go.mod"), []byte(gomod)); err != nil {
		return "", err
	}
	sum, _ := os.ReadFile("/verif/h/go.sum")
	if err := writeIfChanged(filepath.Join(mod, "go.sum"), sum); err != nil {
		return "", err
	}
	outdir := filepath.Join(mod, s.Name)
	args := []string{"--language=go", "--outdir=" + outdir, "--pkgPath=github.com/VKCOM/tl/verifrun/" + s.Name + "/tl", "--basicPkgPath=github.com/VKCOM/tl/pkg/basictl", "--copyrightPath=/repo/COPYRIGHT"}
	args = append(args, s.Args...)
	args = append(args, s.Files...)
	o, code, _ := runCmd(mod, nil, 10*time.Minute, tl2gen, args...)
	if code != 0 {
		return "", fmt.Errorf("tl2gen %v failed (exit %d):\n%s", args, code, tail(o, 30))
	}
	glue := strings.ReplaceAll(glueTemplate, "NAME", s.Name)
	bi := ""
	if _, err := os.Stat(filepath.Join(outdir, "factory_bytes")); err == nil {
		bi = "\t_ \"github.com/VKCOM/tl/verifrun/" + s.Name + "/factory_bytes\""
	}
	glue = strings.ReplaceAll(glue, "BYTESIMPORT", bi)
	// an application links the per-namespace packages next to meta and factory: so does the glue
	var ns []string
	if es, err := os.ReadDir(outdir); err == nil {
		for _, e := range es {
			if !e.IsDir() || !strings.HasPrefix(e.Name(), "tl") {
				continue
			}
			if gs, _ := filepath.Glob(filepath.Join(outdir, e.Name(), "*.go")); len(gs) > 0 {
				ns = append(ns, "\t_ \"github.com/VKCOM/tl/verifrun/"+s.Name+"/"+e.Name()+"\"")
			}
		}
	}
	glue = strings.ReplaceAll(glue, "NSIMPORTS", strings.Join(ns, "\n"))
	tdir := filepath.Join(mod, s.Name+"_t")
	os.MkdirAll(tdir, 0o755)
	if err := writeIfChanged(filepath.Join(tdir, "main_test.go"), []byte(glue)); err != nil {
		return "", err
	}
	bin := filepath.Join(W, s.Name+".test")
	o, code, _ = runCmd(mod, nil, 20*time.Minute, goBin, "test", "-c", "-o", bin, "./"+s.Name+"_t")
	if code != 0 {
		return "", fmt.Errorf("compiling generated code of set %s failed:\n%s", s.Name, tail(o, 40))
	}
	private := filepath.Join(workDir, s.Name+".test")
	if err := copyFile(bin, private); err != nil {
		return "", err
	}
	return private, nil
}

func writeIfChanged(path string, b []byte) error {
	if old, err := os.ReadFile(path); err == nil && string(old) == string(b) {
		return nil
	}
	return os.WriteFile(path, b, 0o644)
}

func copyFile(src, dst string) error {
	in, err := os.Open(src)
	if err != nil {
		return err
	}
	defer in.Close()
	out, err := os.OpenFile(dst, os.O_CREATE|os.O_WRONLY|os.O_TRUNC, 0o755)
	if err != nil {
		return err
	}
	defer out.Close()
	_, err = io.Copy(out, in)
	return err
}

type gOpts struct {
	QRand, TRand       int // number of random schema sets (see randset.go)
	QSets, TSets       []string
	QShards, TShards   int
	QTimeout, TTimeout time.Duration
	Env                []string
}

// genTest: the property runs inside freshly generated + compiled code, one unit per schema set.
func genTest(o gOpts) func(id, tier string, seed int64, replay string) ([]unit, error) {
	return func(id, tier string, seed int64, replay string) ([]unit, error) {
		sets, shards, to := o.QSets, o.QShards, o.QTimeout
		if tier == "thorough" {
			sets, shards, to = o.TSets, o.TShards, o.TTimeout
		}
		if replay != "" {
			// a replay names its schema set in its context
			if name := replaySet(replay); name != "" {
				sets = []string{name}
			}
		}
		if shards <= 0 {
			shards = 4
		}
		if to <= 0 {
			to = 10 * time.Minute
		}
		nrand := o.QRand
		if tier == "thorough" {
			nrand = o.TRand
		}
		if v := os.Getenv("VERIF_SETS"); v != "" && replay == "" { // exploration aid: VERIF_SETS=a,b overrides the sets, no random ones
			sets, nrand = strings.Split(v, ","), 0
		}
		var chosen []genSet
		if replay != "" && len(sets) == 1 && strings.HasPrefix(sets[0], "rnd") {
			s, err := replayRandSet(replay, sets[0])
			if err != nil {
				return nil, err
			}
			chosen = append(chosen, s)
		} else {
			for _, name := range sets {
				s, ok := repoSets[name]
				if !ok {
					return nil, fmt.Errorf("unknown schema set %q", name)
				}
				chosen = append(chosen, s)
			}
			if replay == "" {
				for k := 0; k < nrand; k++ {
					s, err := randSet(seed, k)
					if err != nil {
						return nil, err
					}
					chosen = append(chosen, s)
				}
			}
		}
		var units []unit
		for _, s := range chosen {
			bin := filepath.Join(workDir, s.Name+".test")
			if _, err := os.Stat(bin); err != nil {
				var err error
				if bin, err = genBuild(s); err != nil {
					return nil, err
				}
			}
			env := append([]string{"VERIF_GEN_SET=" + s.Name, "VERIF_GEN_ARGS=" + strings.Join(s.Args, " "), "VERIF_GEN_FILES=" + strings.Join(s.Files, ":")}, o.Env...)
			units = append(units, unit{Name: "gen-" + s.Name, Binary: bin, Dir: workDir, Run: "^TestGen$", Shards: shards, Timeout: to, Env: env})
		}
		return units, nil
	}
}

func replaySet(path string) string {
	b, err := os.ReadFile(path)
	if err != nil {
		return ""
	}
	i := strings.Index(string(b), `"schema_set"`)
	if i < 0 {
		return ""
	}
	rest := string(b)[i+len(`"schema_set"`):]
	q1 := strings.Index(rest, `"`)
	if q1 < 0 {
		return ""
	}
	q2 := strings.Index(rest[q1+1:], `"`)
	if q2 < 0 {
		return ""
	}
	return rest[q1+1 : q1+1+q2]
}
