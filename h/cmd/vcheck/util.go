package main

import (
	"encoding/json"
	"os"
	"strings"
)

func lastLineWith(out, marker string) string {
	res := ""
	for _, l := range strings.Split(out, "\n") {
		if strings.Contains(l, marker) {
			res = l
		}
	}
	return res
}

// replayProperty returns the "property" field of a replay file ("" if unreadable).
func replayProperty(path string) string {
	b, err := os.ReadFile(path)
	if err != nil {
		return ""
	}
	var r struct {
		Property string `json:"property"`
	}
	if json.Unmarshal(b, &r) != nil {
		return ""
	}
	return r.Property
}
