package main

import "strings"

func lastLineWith(out, marker string) string {
	res := ""
	for _, l := range strings.Split(out, "\n") {
		if strings.Contains(l, marker) {
			res = l
		}
	}
	return res
}
