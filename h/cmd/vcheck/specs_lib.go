package main

import "time"

func init() {
	specs["C42"] = &spec{
		LevelText:   "Model-based sequential histories with genuinely pending waiters (Acquire in goroutines, sequenced through an overlay view of the waiter queue): after every operation the semaphore's (held,size) and queue must equal a FIFO admission model exactly, every waiter the model admits must return (30 s => lost wake-up), nobody else may return. Exhaustive over all histories of length<=3 (quick) / <=5 (thorough) from a 16-operation alphabet; rapid for longer ones. Plus concurrent worker mixes under the race detector checking the held-weight bound, conservation and completion.",
		LevelNote:   "Trusted: the FIFO admission model in the harness (from the package's documentation); overlay accessor /verif/overlay/semaphore/verif_export.go. The concurrent part samples the Go scheduler (GOMAXPROCS 1..16) and cannot enumerate interleavings.",
		Technique:   "property-based testing (rapid) with a reference model over operation histories, exhaustive short histories, randomized concurrent stress under -race",
		Rule:        "sequential: history of 1..30 operations (acquire/try/release/force/setsize/cancel), non-trivial iff a queued waiter was admitted by a later release/resize/cancel; concurrent: mix of 2..12 workers, non-trivial iff some Acquire found the semaphore full; distinct by the full case",
		Assumptions: []string{"Acquire of a weight above the current size is never queued and returns only its context error (documented 'doomed' case)", "Release of more than held and negative weights panic by contract and are not issued", "with concurrent SetSize the bound checked is the largest size ever configured"},
		Floors:      []floor{{"waiter-admitted", 0.04, ""}},
		Prepare:     hTest("props/c42", "^TestC42", hOpts{Overlay: true, Race: true, QShards: 8, TShards: 16, QTimeout: 8 * time.Minute, TTimeout: 60 * time.Minute}),
	}
}
