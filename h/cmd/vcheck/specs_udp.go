package main

import "time"

func init() {
	specs["C36"] = &spec{
		LevelText:   "rapid-generated command sequences (3..160 commands from the simulator's own grammar: new message, writer/reader steps, header hand-over, the four timers, datagram duplication and loss, concentrated on 2..5 of the 16 transports) drive the repository's deterministic multi-transport simulator udp.FuzzDyukov; every built-in invariant panic (progress, prefix monotonicity, memory limit, waiter queue, ack set, 'sent but not received') is a violation, and through the guarded end-of-run hook the check additionally requires, without restarts, delivered == submitted as multisets keyed by (src,dst,contents) (exactly once, intact), nothing delivered that was not submitted, and zero acquired incoming-message memory on every transport after settling. With restarts: invariants and the memory bound only.",
		LevelNote:   "Trusted: the simulator itself (part of /repo) as the schedule owner; hook commit 1db62cac (one added call + no-op stub, guarded by build tag verif) and overlay accessor /verif/overlay/udp/verif_export.go. The simulator's allocated/deallocated counters are deliberately not used as an oracle (senders may still hold unacknowledged buffers when it stops).",
		Technique:   "property-based testing: grammar-based command-sequence generation (rapid, shrinkable) against simulator invariants + multiset delivery oracle",
		Rule:        "non-trivial iff the sequence submits >=2 messages, >=1 of them longer than one 32-byte chunk, and contains >=1 datagram loss or duplication; distinct by command bytes",
		Assumptions: []string{"delivery is promised only without connection restarts (as the property states)", "message contents are unique up to the simulator's 8-bit nonce; multiset comparison accounts for repeats"},
		Floors:      []floor{{"msgs>=2", 0.3, ""}, {"multi-chunk", 0.3, ""}, {"loss-or-dup", 0.3, ""}},
		Prepare:     hTest("props/c36", "^TestC36", hOpts{Overlay: true, QShards: 12, TShards: 16, QTimeout: 8 * time.Minute, TTimeout: 90 * time.Minute}),
	}
}
