package main

import (
	"fmt"
	"os"
	"path/filepath"
	"strings"
	"syscall"
	"time"
)

const c34Glue = `package t

import (
	"testing"

	"github.com/VKCOM/tl/verifh/props/c34lib"
	h "github.com/VKCOM/tl/verifrun/helpers"
	"github.com/mailru/easyjson/jlexer"
)

func rd[T any](f func(*jlexer.Lexer, *T) error) func([]byte) (T, error) {
	return func(js []byte) (T, error) {
		var v T
		in := &jlexer.Lexer{Data: js}
		if err := f(in, &v); err != nil {
			return v, err
		}
		in.Consumed()
		return v, in.Error()
	}
}

func TestC34(t *testing.T) {
	c34lib.Run(t, c34lib.Readers{
		String: rd(h.Json2ReadString), StringBytes: rd(h.Json2ReadStringBytes), Bool: rd(h.Json2ReadBool), Byte: rd(h.Json2ReadByte),
		Uint32: rd(h.Json2ReadUint32), Int32: rd(h.Json2ReadInt32), Uint64: rd(h.Json2ReadUint64), Int64: rd(h.Json2ReadInt64),
		Float32: rd(h.Json2ReadFloat32), Float64: rd(h.Json2ReadFloat64),
	})
}
`

// helpersTest generates code for the kitchen-sink schema with the tl2gen of the working tree, copies the generated
// primitive JSON readers (internal/a_tlgen_helpers_code.go) into an importable package and compiles the C34 property
// against them and against /repo/pkg/basictl.
func helpersTest() (string, error) {
	tl2gen, err := buildTool("tl2gen")
	if err != nil {
		return "", err
	}
	wroot := os.Getenv("VERIF_WORK_ROOT")
	if wroot == "" {
		wroot = "/var/tmp/verifwork"
	}
	W := filepath.Join(wroot, "gen", "helpers")
	mod := filepath.Join(W, "verifrun")
	if err := os.MkdirAll(filepath.Join(mod, "helpers"), 0o755); err != nil {
		return "", err
	}
	if err := os.MkdirAll(filepath.Join(W, "pkg", "basictl"), 0o755); err != nil { // the generator drops its copy of basictl here; unused
		return "", err
	}
	lock, err := os.OpenFile(filepath.Join(W, ".lock"), os.O_CREATE|os.O_RDWR, 0o644)
	if err != nil {
		return "", err
	}
	defer lock.Close()
	if err := syscall.Flock(int(lock.Fd()), syscall.LOCK_EX); err != nil {
		return "", err
	}
	defer syscall.Flock(int(lock.Fd()), syscall.LOCK_UN)
	gomod := "module github.com/VKCOM/tl/verifrun\n\ngo 1.24.0\n\nrequire (\n\tgithub.com/VKCOM/tl v0.0.0\n\tgithub.com/VKCOM/tl/verifh v0.0.0\n\tpgregory.net/rapid v1.3.0\n)\n\nreplace github.com/VKCOM/tl => /repo\n\nreplace github.com/VKCOM/tl/verifh => /verif/h\n"
	if err := writeIfChanged(filepath.Join(mod, "go.mod"), []byte(gomod)); err != nil {
		return "", err
	}
	sum, _ := os.ReadFile("/verif/h/go.sum")
	if err := writeIfChanged(filepath.Join(mod, "go.sum"), sum); err != nil {
		return "", err
	}
	outdir := filepath.Join(mod, "sink")
	args := []string{"--language=go", "--outdir=" + outdir, "--pkgPath=github.com/VKCOM/tl/verifrun/sink/tl", "--basicPkgPath=github.com/VKCOM/tl/pkg/basictl", "--copyrightPath=/repo/COPYRIGHT", "/verif/schemas/sink.tl"}
	if o, code, _ := runCmd(mod, nil, 10*time.Minute, tl2gen, args...); code != 0 {
		return "", fmt.Errorf("tl2gen %v failed (exit %d):\n%s", args, code, tail(o, 30))
	}
	src, err := os.ReadFile(filepath.Join(outdir, "internal", "a_tlgen_helpers_code.go"))
	if err != nil {
		return "", fmt.Errorf("generated helpers not found: %v", err)
	}
	code := strings.Replace(string(src), "\npackage internal\n", "\npackage helpers\n", 1)
	if !strings.Contains(code, "\npackage helpers\n") {
		return "", fmt.Errorf("generated helpers: package clause not found")
	}
	if err := writeIfChanged(filepath.Join(mod, "helpers", "helpers.go"), []byte(code)); err != nil {
		return "", err
	}
	tdir := filepath.Join(mod, "c34_t")
	os.MkdirAll(tdir, 0o755)
	if err := writeIfChanged(filepath.Join(tdir, "main_test.go"), []byte(c34Glue)); err != nil {
		return "", err
	}
	bin := filepath.Join(workDir, "C34.test")
	if o, code, _ := runCmd(mod, nil, 20*time.Minute, goBin, "test", "-c", "-o", bin, "./c34_t"); code != 0 {
		return "", fmt.Errorf("compiling the C34 property against the generated helpers failed:\n%s", tail(o, 40))
	}
	return bin, nil
}

func init() {
	specs["C34"] = &spec{
		LevelText:   "rapid-generated strings assembled from plain runs, every character class the writer treats specially (quotes, backslash, control bytes, DEL, U+2028/U+2029 and their neighbours, U+FFFD, 2/3/4-byte runes at the encoding boundaries), random runes, random bytes and malformed UTF-8 (lone continuation, truncated, overlong, surrogate, >U+10FFFF), written after a non-empty buffer prefix by JSONWriteString and JSONWriteStringBytes; numbers from hostile constants (type limits, powers of two +-1, denormals, -0, NaN payloads, infinities), random bit patterns and short decimals for every number writer. Oracles: encoding/json (validity, decoded text, strict {\"base64\":...} object with the same bytes), strconv (exact value / bit-exact float), and the freshly generated Json2Read* readers, which must consume the whole text and return the same value (floats bit-exactly, NaN as NaN).",
		LevelNote:   "Trusted: Go's encoding/json, strconv, unicode/utf8. The readers are the ones tl2gen of the working tree emits (copied from the generated internal package into an importable one, unchanged apart from the package clause).",
		Technique:   "property-based testing (rapid): round trip through the generated readers plus differential check against encoding/json and strconv",
		Rule:        "string case non-trivial iff it has a byte that needs escaping, a multi-byte rune or invalid UTF-8; number case non-trivial iff its bit pattern is > 1; distinct by input",
		Assumptions: []string{"'the JSON readers' are the Json2Read* helpers every generated ReadJSON uses for primitives", "a NaN is read back as some NaN (payload not preserved, as the documented text \"NaN\" cannot carry it)"},
		Floors:      []floor{{"not-utf8", 0.08, ""}},
		Prepare: func(id, tier string, seed int64, replay string) ([]unit, error) {
			bin, err := helpersTest()
			if err != nil {
				return nil, err
			}
			shards, to := 4, 6*time.Minute
			if tier == "thorough" {
				shards, to = 16, 40*time.Minute
			}
			return []unit{{Name: "json-primitives", Binary: bin, Dir: workDir, Run: "^TestC34$", Shards: shards, Timeout: to}}, nil
		},
	}
}
