package main

import (
	"encoding/json"
	"fmt"
	"os"
	"path/filepath"
	"strings"

	"github.com/VKCOM/tl/verifh/schemagen"
	"pgregory.net/rapid"
)

// Random schema sets: the driver draws a schema from the harness' generator (valid by construction), writes it into
// this run's work directory and treats it like a repository schema set. The set name carries seed and index, the replay
// context carries the schema text, so a saved failure is self-contained.

var randArgs = []string{"--tl2WhiteList=*", "--generateByteVersions=*", "--generateRandomCode"}

func randSetName(seed int64, k int) string { return fmt.Sprintf("rnd%d_%d", seed, k) }

func randSchemaText(seed int64, k int) string {
	g := rapid.Custom(func(t *rapid.T) string {
		o := schemagen.DefaultOpts()
		o.MinCombs, o.MaxCombs = 10, 30
		s := schemagen.Generate(t, o)
		return s.Text(schemagen.Layout{})
	})
	return g.Example(int(seed*1000003 + int64(k)*7919 + 17))
}

// randSetArgs: sets with an odd index are generated with --split-internal (one Go package per namespace), the
// layout large users of the generator build with.
func randSetArgs(name string) []string {
	if i := strings.LastIndexByte(name, '_'); i >= 0 && len(name) > i+1 && (name[len(name)-1]-'0')%2 == 1 {
		return append(append([]string{}, randArgs...), "--split-internal")
	}
	return randArgs
}

func writeRandSet(name, text string) (genSet, error) {
	dir := filepath.Join(workDir, "randsets", name)
	if err := os.MkdirAll(dir, 0o755); err != nil {
		return genSet{}, err
	}
	file := filepath.Join(dir, "schema.tl")
	if err := os.WriteFile(file, []byte(text), 0o644); err != nil {
		return genSet{}, err
	}
	return genSet{Name: name, Files: []string{file}, Args: randSetArgs(name), Ephemeral: true}, nil
}

func randSet(seed int64, k int) (genSet, error) {
	return writeRandSet(randSetName(seed, k), randSchemaText(seed, k))
}

// replayRandSet rebuilds the set of a saved failure from the schema text in its context.
func replayRandSet(path, name string) (genSet, error) {
	b, err := os.ReadFile(path)
	if err != nil {
		return genSet{}, err
	}
	var r struct {
		Context struct {
			SchemaText string `json:"schema_text"`
		} `json:"context"`
	}
	if err := json.Unmarshal(b, &r); err != nil || strings.TrimSpace(r.Context.SchemaText) == "" {
		return genSet{}, fmt.Errorf("replay %s names schema set %s but carries no schema text", path, name)
	}
	return writeRandSet(name, r.Context.SchemaText)
}
