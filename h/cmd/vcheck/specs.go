package main

import (
	"fmt"
	"os"
	"path/filepath"
	"time"
)

type floor struct {
	Class   string
	MinFrac float64
	Of      string // denominator class ("" = all evaluations)
}

type spec struct {
	LevelText   string // what assurance the check gives (MANIFEST level_claimed.text)
	LevelNote   string // trusted base (MANIFEST level_note)
	Technique   string
	Rule        string
	Assumptions []string
	Parallel    int
	Floors      []floor
	Prepare     func(id, tier string, seed int64, replay string) ([]unit, error)
}

type hOpts struct {
	Race     bool
	Overlay  bool
	QShards  int
	TShards  int
	QTimeout time.Duration
	TTimeout time.Duration
	Env      []string
	Tools    []string
}

// hTest: the property is a Go test package inside the harness module /verif/h; it is compiled
// against /repo's current working tree on every invocation (the Go build cache keeps that cheap).
func hTest(pkg, run string, o hOpts) func(id, tier string, seed int64, replay string) ([]unit, error) {
	return func(id, tier string, seed int64, replay string) ([]unit, error) {
		bin := filepath.Join(workDir, id+".test")
		args := []string{"test", "-c", "-o", bin}
		if o.Race {
			args = append(args, "-race")
		}
		if o.Overlay {
			args = append(args, "-tags", "verif", "-overlay", filepath.Join(verifRoot, "overlay", "overlay.json"))
		}
		args = append(args, "./"+pkg)
		if _, err := os.Stat(bin); err != nil { // built once per driver invocation
			out, code, _ := runCmd(filepath.Join(verifRoot, "h"), nil, 15*time.Minute, goBin, args...)
			if code != 0 {
				return nil, fmt.Errorf("go %v failed:\n%s", args, tail(out, 40))
			}
		}
		env := append([]string{}, o.Env...)
		for _, tool := range o.Tools { // commands of /repo the check drives through their CLI, built from the working tree
			p, err := buildTool(tool)
			if err != nil {
				return nil, err
			}
			env = append(env, "VERIF_TOOL_"+tool+"="+p)
		}
		o.Env = env
		shards, to := o.QShards, o.QTimeout
		if tier == "thorough" {
			shards, to = o.TShards, o.TTimeout
		}
		if shards <= 0 {
			shards = 1
		}
		if to <= 0 {
			to = 5 * time.Minute
		}
		return []unit{{Name: pkg, Binary: bin, Dir: filepath.Join(verifRoot, "h", pkg), Run: run, Shards: shards, Timeout: to, Env: o.Env}}, nil
	}
}

var specs = map[string]*spec{}

func init() {
	specs["C33"] = &spec{
		LevelText: "Exhaustive enumeration of the small and boundary length ranges (every string length 0..70000 and around 2^24, every truncation point of lengths<=600, every non-minimal header, every padding byte, every TL2 size 0..70000 and the 2^16/2^32/2^63 boundaries, bit vectors of every length 0..130) plus rapid-generated contents, each compared with a layout computed independently from the documents. Exploration level: larger lengths and contents are sampled, not enumerated.",
		LevelNote: "Trusted: the harness' own 20-line reference layout (from TLPrimer/TL2Primer), Go runtime. pkg/basictl is compiled from /repo's working tree on every run.",
		Technique: "property-based testing: exhaustive small-range enumeration + rapid generators against an independent reference layout",
		Rule:      "exhaustive over string lengths 0..70000 (+2^24 boundary), all truncation points for lengths<=600, all non-minimal headers, every padding byte; TL2 sizes exhaustive 0..70000 + boundaries; bit vectors 0..130; rapid for random contents. Non-trivial: the encoding has a multi-byte header, padding, or >=2 payload bytes; distinct by (sub-check, input)",
		Assumptions: []string{
			"the layout oracle is computed by the harness from docs/tldoc.ru.md, TLPrimer and TL2Primer, sharing no code with pkg/basictl",
			"truncated input must satisfy errors.Is(err, io.ErrUnexpectedEOF) for TL1 strings and TL2 sizes",
		},
		Prepare: hTest("props/c33", "^TestC33", hOpts{QShards: 8, TShards: 16, QTimeout: 5 * time.Minute, TTimeout: 30 * time.Minute}),
	}
	specs["C37"] = &spec{
		LevelText:   "Model-based property test: rapid-generated histories of AddAckRange over small, medium, near-2^32 and random-base domains, plus exhaustive enumeration of all histories of 3 ranges over 0..5; after every step the internal prefix+range list (read through an overlay accessor) is compared with a bitset model, the representation invariants are checked, and the ack / resend-request headers are checked against the model.",
		LevelNote:   "Trusted: bitset model in the harness; overlay accessor file /verif/overlay/udp/verif_export.go (read-only, build tag verif). Domains are wrap-free as the statement says.",
		Technique:   "property-based testing (rapid), model-based histories with a bitset reference + small exhaustive enumeration",
		Rule:        "history = 1..40 AddAckRange calls; non-trivial iff some step merged >=2 ranges into one or absorbed a range into the prefix; distinct by the full history",
		Assumptions: []string{"ranges satisfy from<=to<=2^32-2 (wrap-free domains, as stated)", "headers are built into a fresh header object"},
		Floors:      []floor{{"merged-ranges", 0.15, ""}, {"absorbed-into-prefix", 0.10, ""}},
		Prepare:     hTest("props/c37", "^TestC37", hOpts{Overlay: true, QShards: 8, TShards: 16}),
	}
	specs["C41"] = &spec{
		LevelText:   "Model-based property tests: rapid-generated operation histories (mixed, ascending, descending, insert-heavy; key domains 8/32/10^4) applied to the AVL TreeMap and to a Go map + sorted keys; after every step the tree shape (read through an overlay walker) must be in-order equal to the model, AVL-balanced on recomputed subtree heights, and the node allocator must balance. CircularSlice histories (two slices, push/pop/index/IndexRef/Reserve/Clear/Swap/DeepAssign) against Go-slice FIFO models.",
		LevelNote:   "Trusted: the Go map/slice models in the harness; overlay accessor /verif/overlay/algo/verif_export.go (pre-order walker, counting allocator; build tag verif). Operations whose contract is to panic (Front/PopFront on empty, Index out of range) are not issued.",
		Technique:   "property-based testing (rapid), model-based operation histories against reference containers, structural invariant after every step",
		Rule:        "history = 1..150 operations; non-trivial iff >=20 operations and (tree) the root changed by a rotation / (slice) the content wrapped around the buffer end; distinct by the full history",
		Assumptions: []string{"'balanced' is the AVL condition |h(left)-h(right)|<=1 on real (recomputed) subtree heights"},
		Floors:      []floor{{"root-rotation", 0.15, "tm"}, {"wrap-around", 0.10, "cs"}},
		Prepare:     hTest("props/c41", "^TestC41", hOpts{Overlay: true, QShards: 8, TShards: 16}),
	}
}
