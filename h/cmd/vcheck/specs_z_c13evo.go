package main

import (
	"encoding/json"
	"fmt"
	"os"
	"path/filepath"
	"strings"
	"time"

	"github.com/VKCOM/tl/internal/tlast"
	"github.com/VKCOM/tl/verifh/schemagen"
	"pgregory.net/rapid"
)

// C13, schema-evolution half: a TL2 schema (the repository's cases.tl2, and what Migration makes of freshly drawn random
// TL1 schemas) is evolved by appending fields to structs, union variants' field lists and function arguments; code is
// generated for both versions and linked into one binary (gch.MainPair dispatches on the property).

type lcg struct{ s uint64 }

func (r *lcg) next() uint64 { r.s = r.s*6364136223846793005 + 1442695040888963407; return r.s >> 17 }
func (r *lcg) n(k int) int  { return int(r.next() % uint64(k)) }

func tl2Simple(name string) tlast.TL2TypeRef {
	return tlast.TL2TypeRef{SomeType: tlast.TL2TypeApplication{Name: tlast.TL2TypeName{Name: name}}}
}

func tl2Array(elem string) tlast.TL2TypeRef {
	return tlast.TL2TypeRef{BracketType: &tlast.TL2BracketType{ArrayType: tl2Simple(elem)}}
}

// evolveTL2 appends fields; returns the new text and how many fields were appended.
func evolveTL2(text string, seed uint64) (string, int, error) {
	f, err := tlast.ParseTL2File(text, "schema.tl2", tlast.LexerOptions{LexerLanguage: tlast.TL2})
	if err != nil {
		return "", 0, err
	}
	r := &lcg{s: seed*2654435761 + 99}
	added := 0
	mk := func() []tlast.TL2Field {
		var out []tlast.TL2Field
		k := 1 + r.n(3)
		for i := 0; i < k; i++ {
			fld := tlast.TL2Field{Name: fmt.Sprintf("vAdded%d", added)}
			switch r.n(7) {
			case 0:
				fld.Type = tl2Simple("int32")
			case 1:
				fld.Type = tl2Simple("string")
			case 2:
				fld.Type = tl2Array("int64")
			case 3:
				fld.Type = tl2Simple("bool")
			case 4:
				fld.Type, fld.IsOptional = tl2Simple("int64"), true
			case 5:
				fld.Type, fld.IsOptional = tl2Simple("string"), true
			default:
				fld.Type = tl2Array("string")
			}
			added++
			out = append(out, fld)
		}
		return out
	}
	for i := range f.Combinators {
		c := &f.Combinators[i]
		if r.n(3) == 0 {
			continue
		}
		if c.IsFunction {
			c.FuncDecl.Arguments = append(c.FuncDecl.Arguments, mk()...)
			continue
		}
		td := &c.TypeDecl
		if td.Type.IsTypeAlias {
			continue
		}
		st := &td.Type.StructType
		if st.IsUnionType {
			for v := range st.UnionType.Variants {
				vr := &st.UnionType.Variants[v]
				if !vr.IsTypeAlias && len(vr.Fields) > 0 && r.n(2) == 0 {
					vr.Fields = append(vr.Fields, mk()...)
				}
			}
			continue
		}
		st.ConstructorFields = append(st.ConstructorFields, mk()...)
	}
	return f.String(), added, nil
}

type evoSource struct {
	name string
	tl   string // remaining TL1 file ("" if none)
	tl2  string
}

func evoUnits(id, tier string, seed int64) ([]unit, error) {
	var sources []evoSource
	if b, err := os.ReadFile(tls + "cases.tl2"); err == nil {
		sources = append(sources, evoSource{name: "ecases", tl2: string(b)})
	}
	nrand := 1
	if tier == "thorough" {
		nrand = 4
	}
	tl2gen, err := buildTool("tl2gen")
	if err != nil {
		return nil, err
	}
	for k := 0; k < nrand; k++ {
		g := rapid.Custom(func(t *rapid.T) string {
			o := schemagen.DefaultOpts()
			o.MinCombs, o.MaxCombs = 10, 24
			return schemagen.Generate(t, o).Text(schemagen.Layout{})
		})
		text := g.Example(int(seed*1000003 + int64(k)*7919 + 13))
		dir := filepath.Join(workDir, "evo", fmt.Sprintf("m%d", k))
		os.MkdirAll(dir, 0o755)
		if err := os.WriteFile(filepath.Join(dir, "schema.tl"), []byte(text), 0o644); err != nil {
			return nil, err
		}
		if o, code, _ := runCmd(dir, nil, 5*time.Minute, tl2gen, "--language=tl2migration", "--tl2WhiteList=*", filepath.Join(dir, "schema.tl")); code != 0 {
			return nil, fmt.Errorf("migration of a random schema with whitelist * failed:\n%s", tail(o, 20))
		}
		tl, _ := os.ReadFile(filepath.Join(dir, "schema.tl"))
		t2, err := os.ReadFile(filepath.Join(dir, "schema.tl2"))
		if err != nil {
			continue
		}
		sources = append(sources, evoSource{name: fmt.Sprintf("ernd%d_%d", seed, k), tl: string(tl), tl2: string(t2)})
	}
	shards, to := 2, 10*time.Minute
	if tier == "thorough" {
		shards, to = 4, 40*time.Minute
	}
	var units []unit
	for si, src := range sources {
		v2, added, err := evolveTL2(src.tl2, uint64(seed)*31+uint64(si))
		if err != nil {
			return nil, fmt.Errorf("harness: cannot evolve %s: %v", src.name, err)
		}
		if added == 0 {
			continue
		}
		u, err := evoPairUnit(src, v2, shards, to)
		if err != nil {
			return nil, err
		}
		units = append(units, u)
	}
	return units, nil
}

func evoPairUnit(src evoSource, v2 string, shards int, to time.Duration) (unit, error) {
	{
		P := filepath.Join(workDir, "pairs", src.name)
		var filesA, filesB []string
		for side, t2 := range map[string]string{"old": src.tl2, "new": v2} {
			d := filepath.Join(P, side)
			os.MkdirAll(d, 0o755)
			var files []string
			if strings.TrimSpace(src.tl) != "" {
				os.WriteFile(filepath.Join(d, "schema.tl"), []byte(src.tl), 0o644)
				files = append(files, filepath.Join(d, "schema.tl"))
			}
			os.WriteFile(filepath.Join(d, "schema.tl2"), []byte(t2), 0o644)
			files = append(files, filepath.Join(d, "schema.tl2"))
			if side == "old" {
				filesA = files
			} else {
				filesB = files
			}
		}
		bin, broken, err := pairCompile(src.name, P, filesA, filesB, "*", "harness: the evolved schema (fields appended) is not accepted:")
		if err != nil {
			return unit{}, err
		}
		if broken != "" {
			return unit{}, fmt.Errorf("%s", broken)
		}
		env := []string{"VERIF_GEN_SET=" + src.name, "VERIF_GEN_FILES=" + filepath.Join(P, "new", "schema.tl2"), "VERIF_PAIR_OLD=" + filepath.Join(P, "old", "schema.tl2"), "VERIF_PAIR_WL=*"}
		if strings.TrimSpace(src.tl) != "" {
			env = append(env, "VERIF_PAIR_TL="+filepath.Join(P, "old", "schema.tl"))
		}
		return unit{Name: "evo-" + src.name, Binary: bin, Dir: workDir, Run: "^TestGen$", Shards: shards, Timeout: to, Env: env}, nil
	}
}

func init() {
	base := specs["C13"]
	inner := base.Prepare
	base.Prepare = func(id, tier string, seed int64, replay string) ([]unit, error) {
		if replay != "" {
			if b, err := os.ReadFile(replay); err == nil && strings.Contains(string(b), `"tl2-evolution/`) {
				var r struct {
					Context struct {
						Set string `json:"schema_set"`
						New string `json:"schema_text"`
						Old string `json:"schema_text_old"`
						TL  string `json:"schema_text_tl"`
					} `json:"context"`
				}
				if err := json.Unmarshal(b, &r); err != nil || r.Context.New == "" || r.Context.Old == "" {
					return nil, fmt.Errorf("replay %s does not carry both schema versions", replay)
				}
				u, err := evoPairUnit(evoSource{name: r.Context.Set, tl: r.Context.TL, tl2: r.Context.Old}, r.Context.New, 1, 10*time.Minute)
				if err != nil {
					return nil, err
				}
				return []unit{u}, nil
			}
			return inner(id, tier, seed, replay)
		}
		units, err := inner(id, tier, seed, replay)
		if err != nil {
			return nil, err
		}
		evo, err := evoUnits(id, tier, seed)
		if err != nil {
			return nil, err
		}
		return append(units, evo...), nil
	}
}
