// vcheck is the single driver behind every MANIFEST command:
//
//	vcheck <ID> [--tier quick|thorough] [--replay path]
//
// exit 0: property held on everything explored (KNOWN-FINDING lines may be printed)
// exit 1: "VIOLATION property=<id> replay=<path>"
// exit 2: inconclusive (infrastructure trouble: build failure, timeout, resource limit)
package main

import (
	"encoding/binary"
	"encoding/json"
	"fmt"
	"os"
	"os/exec"
	"path/filepath"
	"sort"
	"strconv"
	"strings"
	"sync"
	"time"
)

const verifRoot = "/verif"

var (
	goBin   = "go"
	workDir string
)

func pinEnv() {
	os.Setenv("GOFLAGS", "-mod=mod")
	os.Setenv("GOPROXY", "off")
	os.Unsetenv("GOSUMDB")
	os.Unsetenv("GONOSUMDB")
	os.Unsetenv("GONOSUMCHECK")
	os.Setenv("GOWORK", "off")
	direct := "/root/go/pkg/mod/golang.org/toolchain@v0.0.1-go1.24.0.linux-amd64/bin/go"
	if _, err := os.Stat(direct); err == nil {
		goBin = direct
		os.Setenv("GOTOOLCHAIN", "local")
		os.Setenv("PATH", filepath.Dir(direct)+":"+os.Getenv("PATH"))
	} else {
		os.Setenv("GOTOOLCHAIN", "auto")
	}
	if os.Getenv("VERIF_SEED") == "" {
		os.Setenv("VERIF_SEED", "1")
	}
}

type unit struct {
	Name    string   // label for logs / evidence
	Binary  string   // compiled test binary
	Dir     string   // cwd
	Env     []string // extra env
	Run     string   // -test.run regexp
	Shards  int
	Timeout time.Duration
	Context json.RawMessage
	// native fuzzing unit: the binary runs `-test.fuzz Fuzz -test.fuzztime FuzzTime` (coverage-guided, all cores) in a
	// scratch directory; a crasher reaches the driver through the replay file the fuzz target writes
	Fuzz     string
	FuzzTime time.Duration
}

type shardResult struct {
	unit     *unit
	shard    int
	exit     int
	out      string
	stats    *statsFile
	hashes   []uint64
	replay   string
	timedOut bool
}

type statsFile struct {
	Evaluations int64             `json:"evaluations"`
	NonTrivial  int64             `json:"nontrivial"`
	Classes     map[string]int64  `json:"classes"`
	Excluded    map[string]int64  `json:"excluded_known"`
	Samples     []json.RawMessage `json:"samples"`
	Info        map[string]any    `json:"info"`
	Exhaustive  map[string]bool   `json:"exhaustive"`
	Violations  int               `json:"violations"`
}

func inconclusive(format string, a ...any) {
	fmt.Printf("INCONCLUSIVE: "+format+"\n", a...)
	cleanup()
	os.Exit(2)
}

func cleanup() {
	if workDir != "" && os.Getenv("VERIF_KEEP") == "" {
		os.RemoveAll(workDir)
	}
}

func runCmd(dir string, env []string, timeout time.Duration, name string, args ...string) (string, int, bool) {
	cmd := exec.Command(name, args...)
	cmd.Dir = dir
	cmd.Env = append(os.Environ(), env...)
	var buf strings.Builder
	cmd.Stdout = &buf
	cmd.Stderr = &buf
	if err := cmd.Start(); err != nil {
		return err.Error(), 127, false
	}
	done := make(chan error, 1)
	go func() { done <- cmd.Wait() }()
	timedOut := false
	var err error
	var deadline <-chan time.Time
	if timeout > 0 {
		deadline = time.After(timeout)
	}
	tick := time.NewTicker(time.Second)
	defer tick.Stop()
wait:
	for {
		select {
		case err = <-done:
			break wait
		case <-deadline:
			timedOut = true
			cmd.Process.Kill()
			err = <-done
			break wait
		case <-tick.C: // memory watchdog: a runaway child is an infrastructure problem (exit 2), never a verdict
			if rss := rssOf(cmd.Process.Pid); rss > maxChildRSS {
				timedOut = true
				cmd.Process.Kill()
				err = <-done
				fmt.Fprintf(&buf, "\nvcheck: child exceeded %d MiB resident memory (%d MiB): killed\n", maxChildRSS>>20, rss>>20)
				break wait
			}
		}
	}
	code := 0
	if err != nil {
		code = 1
		if ee, ok := err.(*exec.ExitError); ok {
			code = ee.ExitCode()
			if code < 0 {
				code = 137
			}
		}
	}
	return buf.String(), code, timedOut
}

func runShard(u *unit, shard int, id, tier string, extraEnv []string) shardResult {
	base := filepath.Join(workDir, fmt.Sprintf("%s-%d", sanitize(u.Name), shard))
	statsPath := base + ".stats.json"
	replayPath := base + ".replay.json"
	os.Remove(statsPath)
	os.Remove(replayPath)
	env := append([]string{
		"VERIF_STATS=" + statsPath,
		"VERIF_REPLAY_OUT=" + replayPath,
		"VERIF_TIER=" + tier,
		"VERIF_PROP=" + id,
		"VERIF_SHARD=" + strconv.Itoa(shard),
		"VERIF_SHARDS=" + strconv.Itoa(u.Shards),
		"VERIF_KNOWN=" + filepath.Join(verifRoot, "known_findings.json"),
		"VERIF_WORK=" + workDir,
		"VERIF_GO=" + goBin,
		"GOTRACEBACK=single",
	}, u.Env...)
	env = append(env, extraEnv...)
	args := []string{"-test.run", u.Run, "-test.timeout", u.Timeout.String(), "-test.count=1"}
	dir := u.Dir
	if u.Fuzz != "" {
		dir = filepath.Join(workDir, "fuzz-"+sanitize(u.Name))
		os.MkdirAll(filepath.Join(dir, "cache"), 0o755)
		args = []string{"-test.run", "^$", "-test.fuzz", u.Fuzz, "-test.fuzztime", u.FuzzTime.String(), "-test.fuzzcachedir", filepath.Join(dir, "cache"), "-test.parallel", "12", "-test.timeout", u.Timeout.String()}
	}
	out, code, to := runCmd(dir, env, u.Timeout+30*time.Second, u.Binary, args...)
	r := shardResult{unit: u, shard: shard, exit: code, out: out, timedOut: to}
	if u.Fuzz != "" {
		// the fuzzing engine reports its work itself: "fuzz: elapsed: 1m0s, execs: 2548341 (42472/sec), new interesting: 38 (total: 120)"
		var execs, interesting int64
		for _, line := range strings.Split(out, "\n") {
			if i := strings.Index(line, "execs: "); i >= 0 && strings.HasPrefix(strings.TrimSpace(line), "fuzz: elapsed") {
				fmt.Sscanf(line[i:], "execs: %d", &execs)
				if j := strings.Index(line, "(total: "); j >= 0 {
					fmt.Sscanf(line[j:], "(total: %d", &interesting)
				}
			}
		}
		r.stats = &statsFile{Classes: map[string]int64{"native-fuzz-execs": execs, "native-fuzz-corpus-entries": interesting}}
		if _, err := os.Stat(replayPath); err == nil {
			r.replay = replayPath
		}
		return r
	}
	if b, err := os.ReadFile(statsPath); err == nil {
		var s statsFile
		if json.Unmarshal(b, &s) == nil {
			r.stats = &s
		}
	}
	if b, err := os.ReadFile(statsPath + ".hashes"); err == nil {
		for i := 0; i+8 <= len(b); i += 8 {
			r.hashes = append(r.hashes, binary.LittleEndian.Uint64(b[i:]))
		}
	}
	if _, err := os.Stat(replayPath); err == nil {
		r.replay = replayPath
	}
	return r
}

func sanitize(s string) string {
	return strings.Map(func(r rune) rune {
		if r >= 'a' && r <= 'z' || r >= 'A' && r <= 'Z' || r >= '0' && r <= '9' || r == '-' || r == '_' {
			return r
		}
		return '_'
	}, s)
}

type finding struct {
	ID         string   `json:"id"`
	Properties []string `json:"property_ids"`
	Status     string   `json:"status"`
	Commit     string   `json:"commit,omitempty"`
	Key        string   `json:"key"`
	What       string   `json:"what"`
	Sentinel   string   `json:"sentinel,omitempty"`
}

func loadFindings() []finding {
	b, err := os.ReadFile(filepath.Join(verifRoot, "known_findings.json"))
	if err != nil {
		return nil
	}
	var fs struct {
		Findings []finding `json:"findings"`
	}
	if err := json.Unmarshal(b, &fs); err != nil {
		inconclusive("known_findings.json unreadable: %v", err)
	}
	return fs.Findings
}

func has(xs []string, x string) bool {
	for _, y := range xs {
		if x == y {
			return true
		}
	}
	return false
}

func main() {
	if len(os.Args) < 2 {
		fmt.Println("usage: vcheck <ID> [--tier quick|thorough] [--replay path]")
		os.Exit(2)
	}
	id := os.Args[1]
	if id == "--manifest" {
		printManifest()
		return
	}
	tier := os.Getenv("VERIF_TIER")
	replay := ""
	for i := 2; i < len(os.Args); i++ {
		switch os.Args[i] {
		case "--tier":
			i++
			tier = os.Args[i]
		case "--replay":
			i++
			replay = os.Args[i]
		}
	}
	if tier != "thorough" {
		tier = "quick"
	}
	pinEnv()
	spec, ok := specs[id]
	if !ok {
		fmt.Printf("unknown property %s\n", id)
		os.Exit(2)
	}
	start := time.Now()
	wroot := os.Getenv("VERIF_WORK_ROOT")
	if wroot == "" {
		wroot = "/var/tmp/verifwork"
	}
	workDir = filepath.Join(wroot, fmt.Sprintf("%s-%d", id, os.Getpid()))
	if err := os.MkdirAll(workDir, 0o755); err != nil {
		inconclusive("cannot create work dir: %v", err)
	}
	defer cleanup()
	repoBefore := repoStatus()

	seed, _ := strconv.ParseInt(os.Getenv("VERIF_SEED"), 10, 64)
	units, err := spec.Prepare(id, tier, seed, replay)
	if err != nil {
		inconclusive("prepare failed: %v", err)
	}

	exitCode := 0
	var knownLines []string

	// --- replay mode ---------------------------------------------------------
	if replay != "" {
		abs, _ := filepath.Abs(replay)
		failed := false
		for i := range units {
			u := &units[i]
			u.Shards = 1
			r := runShard(u, 0, id, tier, []string{"VERIF_REPLAY_IN=" + abs})
			fmt.Print(filterOut(r.out))
			if r.exit != 0 {
				failed = true
			}
		}
		cleanup()
		if failed {
			fmt.Printf("VIOLATION property=%s replay=%s\n", id, abs)
			os.Exit(1)
		}
		fmt.Printf("replay passed: property=%s replay=%s\n", id, abs)
		os.Exit(0)
	}

	// --- sentinels of known findings ----------------------------------------
	sentinelInfo := map[string]string{}
	var regressViolations []string
	var deferredKnown []finding
	for _, f := range loadFindings() {
		if !has(f.Properties, id) {
			continue
		}
		if f.Status == "fixed" {
			// regression replay of a repaired defect: suppresses nothing, must pass
			for _, sent := range strings.Fields(f.Sentinel) {
				sp := filepath.Join(verifRoot, sent)
				if replayProperty(sp) != id {
					continue
				}
				sunits, err := spec.Prepare(id, tier, seed, sp)
				if err != nil {
					inconclusive("prepare for regression replay %s failed: %v", f.ID, err)
				}
				for i := range sunits {
					u := &sunits[i]
					u.Shards = 1
					u.Name = "regress-" + f.ID + "-" + u.Name
					r := runShard(u, 0, id, tier, []string{"VERIF_REPLAY_IN=" + sp})
					if r.exit != 0 {
						fmt.Printf("--- regression replay of fixed finding %s fails again ---\n%s\n", f.ID, tail(filterOut(r.out), 30))
						regressViolations = append(regressViolations, sp)
					}
				}
			}
			continue
		}
		if f.Status != "known" {
			continue
		}
		if f.Sentinel == "" {
			knownLines = append(knownLines, fmt.Sprintf("KNOWN-FINDING: property=%s %s: %s", id, f.ID, f.What))
			continue
		}
		sp := filepath.Join(verifRoot, f.Sentinel)
		if replayProperty(sp) != id {
			// the sentinel belongs to another property's check; here the finding is reported when its input class is met
			deferredKnown = append(deferredKnown, f)
			continue
		}
		sunits, err := spec.Prepare(id, tier, seed, sp)
		if err != nil {
			inconclusive("prepare for sentinel %s failed: %v", f.ID, err)
		}
		still := false
		for i := range sunits {
			u := &sunits[i]
			u.Shards = 1
			u.Name = "sentinel-" + f.ID + "-" + u.Name
			r := runShard(u, 0, id, tier, []string{"VERIF_REPLAY_IN=" + sp})
			if r.exit != 0 {
				still = true
			}
		}
		if still {
			knownLines = append(knownLines, fmt.Sprintf("KNOWN-FINDING: property=%s %s: %s", id, f.ID, f.What))
			sentinelInfo[f.ID] = "sentinel still fails (defect present)"
		} else {
			sentinelInfo[f.ID] = "sentinel passes now: the defect seems repaired; move the entry to fixed"
			fmt.Printf("NOTE: sentinel of %s passes on this tree\n", f.ID)
		}
	}

	// --- main run -------------------------------------------------------------
	type job struct {
		u     *unit
		shard int
	}
	var jobs []job
	for i := range units {
		for s := 0; s < units[i].Shards; s++ {
			jobs = append(jobs, job{&units[i], s})
		}
	}
	par := spec.Parallel
	if par <= 0 {
		par = 16
	}
	results := make([]shardResult, len(jobs))
	sem := make(chan struct{}, par)
	var wg sync.WaitGroup
	for i, j := range jobs {
		wg.Add(1)
		sem <- struct{}{}
		go func(i int, j job) {
			defer wg.Done()
			defer func() { <-sem }()
			results[i] = runShard(j.u, j.shard, id, tier, nil)
		}(i, j)
	}
	wg.Wait()

	// --- aggregate ------------------------------------------------------------
	agg := statsFile{Classes: map[string]int64{}, Excluded: map[string]int64{}, Info: map[string]any{}, Exhaustive: map[string]bool{}}
	hashes := map[uint64]struct{}{}
	violations := append([]string{}, regressViolations...)
	var problems []string
	moreViolations := 0
	for _, r := range results {
		if r.stats != nil {
			agg.Evaluations += r.stats.Evaluations
			agg.NonTrivial += r.stats.NonTrivial
			for k, v := range r.stats.Classes {
				agg.Classes[k] += v
			}
			for k, v := range r.stats.Excluded {
				agg.Excluded[k] += v
			}
			for k, v := range r.stats.Info {
				if f, ok := v.(float64); ok {
					cur, _ := agg.Info[k].(float64)
					agg.Info[k] = cur + f
				} else {
					agg.Info[k] = v
				}
			}
			for k, v := range r.stats.Exhaustive {
				agg.Exhaustive[k] = v
			}
			if len(agg.Samples) < 8 {
				agg.Samples = append(agg.Samples, r.stats.Samples...)
			}
		}
		for _, h := range r.hashes {
			hashes[h] = struct{}{}
		}
		if r.exit == 0 {
			continue
		}
		name := fmt.Sprintf("%s#%d", r.unit.Name, r.shard)
		if r.replay != "" {
			if len(violations) < 3 {
				violations = append(violations, saveReplay(id, r.replay, name))
				fmt.Printf("--- failing output of %s ---\n%s\n", name, tail(filterOut(r.out), 60))
			} else {
				moreViolations++
			}
			continue
		}
		if i := strings.Index(r.out, "WARNING: DATA RACE"); i >= 0 {
			// the race detector's report is the reproduction we can keep (schedules are not replayable)
			rep := r.out[i:]
			if len(rep) > 6000 {
				rep = rep[:6000]
			}
			rb, _ := json.MarshalIndent(map[string]any{"property": id, "test": "race-detector", "case": map[string]string{"unit": name}, "error": rep}, "", " ")
			tmp := filepath.Join(workDir, sanitize(name)+".race.json")
			os.WriteFile(tmp, rb, 0o644)
			if len(violations) < 3 {
				violations = append(violations, saveReplay(id, tmp, name))
				fmt.Printf("--- data race reported in %s ---\n%s\n", name, tail(rep, 40))
			} else {
				moreViolations++
			}
			continue
		}
		if r.exit == 3 && strings.Contains(r.out, "INCONCLUSIVE-IN-CHILD") {
			problems = append(problems, name+": "+lastLineWith(r.out, "INCONCLUSIVE-IN-CHILD"))
			continue
		}
		if r.timedOut || strings.Contains(r.out, "test timed out") {
			problems = append(problems, name+": timed out")
			fmt.Printf("--- output of %s (timeout) ---\n%s\n", name, tail(r.out, 40))
			continue
		}
		// the process died (fatal error, OOM kill, os.Exit in tested code) or failed without a replay
		if died(r) {
			jpath := filepath.Join(workDir, sanitize(name)+".journal.json")
			r2 := runShard(r.unit, r.shard, id, tier, []string{"VERIF_JOURNAL=" + jpath})
			if r2.exit != 0 && r2.replay == "" {
				if _, err := os.Stat(jpath); err == nil {
					// confirm alone
					u3 := *r.unit
					u3.Shards = 1
					u3.Name = "confirm-" + u3.Name
					r3 := runShard(&u3, 0, id, tier, []string{"VERIF_REPLAY_IN=" + jpath})
					if r3.exit != 0 {
						violations = append(violations, saveReplay(id, jpath, name))
						fmt.Printf("--- process died in %s; confirmed alone ---\n%s\n", name, tail(r3.out, 40))
						continue
					}
				}
			} else if r2.replay != "" {
				violations = append(violations, saveReplay(id, r2.replay, name))
				continue
			}
		}
		problems = append(problems, fmt.Sprintf("%s: exit %d without a replay file", name, r.exit))
		fmt.Printf("--- output of %s (exit %d) ---\n%s\n", name, r.exit, tail(r.out, 60))
	}

	// class floors
	for _, fl := range spec.Floors {
		got := agg.Classes[fl.Class]
		den := agg.Evaluations
		if fl.Of != "" {
			den = agg.Classes[fl.Of]
		}
		if len(violations) == 0 && den > 0 && float64(got) < fl.MinFrac*float64(den) {
			problems = append(problems, fmt.Sprintf("generator floor missed: class %q = %d of %d %s (< %.1f%%)", fl.Class, got, den, fl.Of, fl.MinFrac*100))
		}
	}

	if after := repoStatus(); after != repoBefore {
		problems = append(problems, "git status of /repo changed during the run")
	}

	samples := []any{}
	for _, s := range agg.Samples {
		if len(samples) >= 6 {
			break
		}
		samples = append(samples, s)
	}
	if len(samples) == 0 {
		samples = append(samples, "no non-trivial case sampled")
	}
	cov := map[string]any{
		"evaluations":         agg.Evaluations,
		"distinct_nontrivial": len(hashes),
		"nontrivial_total":    agg.NonTrivial,
		"rule":                spec.Rule,
		"samples":             samples,
		"classes":             agg.Classes,
		"excluded_known":      agg.Excluded,
		"info":                agg.Info,
		"units":               unitNames(units),
	}
	if len(agg.Exhaustive) > 0 {
		keys := []string{}
		for k := range agg.Exhaustive {
			keys = append(keys, k)
		}
		sort.Strings(keys)
		cov["exhaustive_subspaces"] = keys
	}
	if len(sentinelInfo) > 0 {
		cov["known_finding_sentinels"] = sentinelInfo
	}
	if len(problems) > 0 {
		cov["problems"] = problems
	}
	ev := map[string]any{
		"property_id": id,
		"tier":        tier,
		"seed":        seed,
		"level":       "exploration",
		"coverage":    cov,
		"assumptions": append([]string{}, spec.Assumptions...),
		"wall_s":      time.Since(start).Seconds(),
		"violations":  len(violations),
	}
	evb, _ := json.MarshalIndent(ev, "", " ")
	os.MkdirAll(filepath.Join(verifRoot, "evidence"), 0o755)
	if err := os.WriteFile(filepath.Join(verifRoot, "evidence", id+".json"), append(evb, '\n'), 0o644); err != nil {
		problems = append(problems, "cannot write evidence: "+err.Error())
	}

	for _, f := range deferredKnown {
		if agg.Excluded[f.ID] > 0 {
			knownLines = append(knownLines, fmt.Sprintf("KNOWN-FINDING: property=%s %s: %s (%d generated cases fell into this class and were excluded)", id, f.ID, f.What, agg.Excluded[f.ID]))
		}
	}
	for _, l := range knownLines {
		fmt.Println(l)
	}
	fmt.Printf("%s %s seed=%d: %d cases, %d distinct non-trivial, %d units, %.1fs\n", id, tier, seed, agg.Evaluations, len(hashes), len(units), time.Since(start).Seconds())
	if len(violations) > 0 {
		for _, v := range violations {
			fmt.Printf("VIOLATION property=%s replay=%s\n", id, v)
		}
		if moreViolations > 0 {
			fmt.Printf("(%d further failing shards not listed)\n", moreViolations)
		}
		exitCode = 1
	} else if len(problems) > 0 {
		for _, p := range problems {
			fmt.Println("INCONCLUSIVE:", p)
		}
		exitCode = 2
	}
	cleanup()
	os.Exit(exitCode)
}

func died(r shardResult) bool {
	return true
}

func unitNames(us []unit) []string {
	var out []string
	for _, u := range us {
		out = append(out, u.Name)
	}
	return out
}

func tail(s string, n int) string {
	lines := strings.Split(strings.TrimRight(s, "\n"), "\n")
	if len(lines) > n {
		lines = append([]string{"..."}, lines[len(lines)-n:]...)
	}
	for i, l := range lines {
		if len(l) > 600 {
			lines[i] = l[:600] + "…"
		}
	}
	return strings.Join(lines, "\n")
}

// filterOut makes sure a child's output can never be mistaken for the driver's verdict lines.
func filterOut(s string) string {
	s = strings.ReplaceAll(s, "VIOLATION property=", "violation-in-child property=")
	return s
}

func saveReplay(id, src, name string) string {
	dir := filepath.Join(verifRoot, "replays", id)
	os.MkdirAll(dir, 0o755)
	b, err := os.ReadFile(src)
	if err != nil {
		return src
	}
	dst := filepath.Join(dir, fmt.Sprintf("fail-%s-%x.json", sanitize(name), hash64(b)&0xffffff))
	os.WriteFile(dst, b, 0o644)
	return dst
}

func hash64(b []byte) uint64 {
	var h uint64 = 1469598103934665603
	for _, c := range b {
		h ^= uint64(c)
		h *= 1099511628211
	}
	return h
}

func repoStatus() string {
	out, _, _ := runCmd("/repo", nil, 60*time.Second, "git", "status", "--porcelain")
	return out
}
