package main

import (
	"encoding/json"
	"fmt"
	"os"
	"path/filepath"
	"strings"
	"time"

	"github.com/VKCOM/tl/verifh/schemagen"
	"pgregory.net/rapid"
)

// C27, wire/JSON half: for a (schema, whitelist) pair that migration accepts, Go code is generated from the original
// schema and from the migrated .tl/.tl2 pair, both are linked into one test binary and compared (gch.MainPair).

const pairGlue = `package t

import (
	"os"
	"testing"

	"github.com/VKCOM/tl/verifh/gch"
	_ "github.com/VKCOM/tl/verifrun/NAMEa/factory"
BYTESA
	ma "github.com/VKCOM/tl/verifrun/NAMEa/meta"
	_ "github.com/VKCOM/tl/verifrun/NAMEb/factory"
BYTESB
	mb "github.com/VKCOM/tl/verifrun/NAMEb/meta"
)

type itemA struct{ ma.TLItem }

func (i itemA) CreateObject() gch.Object          { return i.TLItem.CreateObject() }
func (i itemA) CreateObjectBytes() gch.Object     { return i.TLItem.CreateObjectBytes() }
func (i itemA) CreateFunction() gch.Function      { return i.TLItem.CreateFunction() }
func (i itemA) CreateFunctionBytes() gch.Function { return i.TLItem.CreateFunctionBytes() }
func (i itemA) AnnotationBits() uint32            { return 0 }

type itemB struct{ mb.TLItem }

func (i itemB) CreateObject() gch.Object          { return i.TLItem.CreateObject() }
func (i itemB) CreateObjectBytes() gch.Object     { return i.TLItem.CreateObjectBytes() }
func (i itemB) CreateFunction() gch.Function      { return i.TLItem.CreateFunction() }
func (i itemB) CreateFunctionBytes() gch.Function { return i.TLItem.CreateFunctionBytes() }
func (i itemB) AnnotationBits() uint32            { return 0 }

func TestGen(t *testing.T) {
	regA := &gch.Registry{SetName: os.Getenv("VERIF_GEN_SET")}
	for _, it := range ma.GetAllTLItems() {
		regA.Items = append(regA.Items, itemA{it})
	}
	regA.ByName = func(n string) gch.Item {
		if it := ma.FactoryItemByTLName(n); it != nil {
			return itemA{it}
		}
		return nil
	}
	regB := &gch.Registry{SetName: os.Getenv("VERIF_GEN_SET")}
	for _, it := range mb.GetAllTLItems() {
		regB.Items = append(regB.Items, itemB{it})
	}
	regB.ByName = func(n string) gch.Item {
		if it := mb.FactoryItemByTLName(n); it != nil {
			return itemB{it}
		}
		return nil
	}
	gch.MainPair(t, regA, regB)
}
`

type pairResult struct {
	Binary  string
	Refused bool   // migration did not accept the pair
	Broken  string // migration accepted but the migrated schema does not generate / compile: the message
	Schema  string // path of the original schema file
}

func pairBuild(name, text, wl string) (pairResult, error) {
	tl2gen, err := buildTool("tl2gen")
	if err != nil {
		return pairResult{}, err
	}
	P := filepath.Join(workDir, "pairs", name)
	mod := filepath.Join(P, "verifrun")
	oldDir, newDir := filepath.Join(P, "old"), filepath.Join(P, "new")
	for _, d := range []string{oldDir, newDir, mod, filepath.Join(P, "pkg", "basictl")} {
		if err := os.MkdirAll(d, 0o755); err != nil {
			return pairResult{}, err
		}
	}
	res := pairResult{Schema: filepath.Join(oldDir, "schema.tl")}
	for _, d := range []string{oldDir, newDir} {
		if err := os.WriteFile(filepath.Join(d, "schema.tl"), []byte(text), 0o644); err != nil {
			return res, err
		}
	}
	if o, code, _ := runCmd(newDir, nil, 5*time.Minute, tl2gen, "--language=tl2migration", "--tl2WhiteList="+wl, filepath.Join(newDir, "schema.tl")); code != 0 {
		if strings.Contains(o, "panic:") || strings.Contains(o, "goroutine ") {
			res.Broken = "tl2gen --language=tl2migration crashed:\n" + tail(o, 30)
			return res, nil
		}
		res.Refused = true
		return res, nil
	}
	newFiles := []string{filepath.Join(newDir, "schema.tl")}
	if _, err := os.Stat(filepath.Join(newDir, "schema.tl2")); err == nil {
		newFiles = append(newFiles, filepath.Join(newDir, "schema.tl2"))
	}
	bin, broken, err := pairCompile(name, P, []string{filepath.Join(oldDir, "schema.tl")}, newFiles, wl, "migration accepted the schema, but")
	if err != nil {
		return res, err
	}
	res.Binary, res.Broken = bin, broken
	return res, nil
}

// pairCompile generates Go code for two schema versions (sides a and b) under P/verifrun, links both with the pair glue
// into one test binary. broken != "" when side b does not generate or compile (what that means is the caller's business).
func pairCompile(name, P string, filesA, filesB []string, wl, blame string) (bin string, broken string, err error) {
	tl2gen, err := buildTool("tl2gen")
	if err != nil {
		return "", "", err
	}
	mod := filepath.Join(P, "verifrun")
	for _, d := range []string{mod, filepath.Join(P, "pkg", "basictl")} {
		if err := os.MkdirAll(d, 0o755); err != nil {
			return "", "", err
		}
	}
	gomod := "module github.com/VKCOM/tl/verifrun\n\ngo 1.24.0\n\nrequire (\n\tgithub.com/VKCOM/tl v0.0.0\n\tgithub.com/VKCOM/tl/verifh v0.0.0\n\tpgregory.net/rapid v1.3.0\n)\n\nreplace github.com/VKCOM/tl => /repo\n\nreplace github.com/VKCOM/tl/verifh => /verif/h\n"
	os.WriteFile(filepath.Join(mod, "go.mod"), []byte(gomod), 0o644)
	sum, _ := os.ReadFile("/verif/h/go.sum")
	os.WriteFile(filepath.Join(mod, "go.sum"), sum, 0o644)
	gen := func(side string, files []string) (string, int) {
		out := filepath.Join(mod, name+side)
		args := []string{"--language=go", "--outdir=" + out, "--pkgPath=github.com/VKCOM/tl/verifrun/" + name + side + "/tl", "--basicPkgPath=github.com/VKCOM/tl/pkg/basictl", "--copyrightPath=/repo/COPYRIGHT", "--tl2WhiteList=" + wl, "--generateByteVersions=*", "--generateRandomCode"}
		o, code, _ := runCmd(mod, nil, 10*time.Minute, tl2gen, append(args, files...)...)
		return o, code
	}
	if o, code := gen("a", filesA); code != 0 {
		return "", "", fmt.Errorf("tl2gen rejects side a of pair %s with whitelist %q:\n%s", name, wl, tail(o, 20))
	}
	if o, code := gen("b", filesB); code != 0 {
		return "", blame + " tl2gen --language=go rejects what it produced:\n" + tail(o, 25), nil
	}
	glue := strings.ReplaceAll(pairGlue, "NAME", name)
	for side, key := range map[string]string{"a": "BYTESA", "b": "BYTESB"} {
		imp := ""
		if _, err := os.Stat(filepath.Join(mod, name+side, "factory_bytes")); err == nil {
			imp = "\t_ \"github.com/VKCOM/tl/verifrun/" + name + side + "/factory_bytes\""
		}
		glue = strings.ReplaceAll(glue, key, imp)
	}
	tdir := filepath.Join(mod, name+"_t")
	os.MkdirAll(tdir, 0o755)
	if err := os.WriteFile(filepath.Join(tdir, "main_test.go"), []byte(glue), 0o644); err != nil {
		return "", "", err
	}
	bin = filepath.Join(workDir, name+".pair.test")
	if o, code, _ := runCmd(mod, nil, 20*time.Minute, goBin, "test", "-c", "-o", bin, "./"+name+"_t"); code != 0 {
		return "", blame + " the code generated from what it produced does not compile:\n" + tail(o, 30), nil
	}
	return bin, "", nil
}

// pairCandidates: whitelists worth trying for a schema, most specific first.
func pairCandidates(s *schemagen.Schema, seed int64) []string {
	var out []string
	seen := map[string]bool{}
	add := func(w string) {
		if w != "" && !seen[w] {
			seen[w] = true
			out = append(out, w)
		}
	}
	ns := map[string]bool{}
	for _, c := range s.Combs {
		if i := strings.Index(c.Name, "."); i > 0 {
			ns[c.Name[:i+1]] = true
		}
	}
	var nss []string
	for n := range ns {
		nss = append(nss, n)
	}
	sortStrings(nss)
	for i, n := range nss {
		if (int(seed)+i)%2 == 0 {
			add(n)
		}
	}
	if len(nss) >= 2 {
		add(nss[0] + "," + nss[len(nss)-1])
	}
	add("*")
	return out
}

func sortStrings(a []string) {
	for i := 1; i < len(a); i++ {
		for j := i; j > 0 && a[j] < a[j-1]; j-- {
			a[j], a[j-1] = a[j-1], a[j]
		}
	}
}

func writePairBuildReplay(id, name, text, wl, msg string) string {
	dir := filepath.Join(verifRoot, "replays", id)
	os.MkdirAll(dir, 0o755)
	path := filepath.Join(dir, "fail-pair-build-"+name+".json")
	ctx, _ := json.Marshal(map[string]string{"schema_set": name, "schema_text": text, "white_list": wl})
	b, _ := json.MarshalIndent(map[string]any{"property": id, "test": "pair-build", "context": json.RawMessage(ctx), "case": map[string]string{"white_list": wl}, "error": msg}, "", " ")
	os.WriteFile(path, b, 0o644)
	return path
}

func init() {
	inproc := hTest("props/c27", "^TestC27", hOpts{QShards: 8, TShards: 16, QTimeout: 10 * time.Minute, TTimeout: 60 * time.Minute})
	specs["C27"] = &spec{
		LevelText:   "Two parts. (1) In process, high volume: rapid-generated TL1 schemas (harness generator, valid by construction) with a whitelist that is '*' or a random set of namespaces and single types; the kernel's Migration (the code behind tl2gen --language=tl2migration) runs on a copy of the schema directory; when it accepts, the resulting .tl/.tl2 pair must compile in a fresh kernel and every top-level type, union and function of the original schema must still exist. (2) On generated code: for cases.tl and for freshly drawn random schemas, each with the first whitelists migration accepts (namespaces, pairs of namespaces, '*'), Go code is generated by the tl2gen of the tree from the original schema (its TL2 view) and from the migrated .tl/.tl2 files (must generate and compile), both packages are linked into one test binary, and for every item present in both registries values drawn on either side are written as TL2 by one side, read completely by the other, written back identically, and their JSON texts must be equal.",
		LevelNote:   "Trusted: the schema generator and the harness value generator. The interpreter is not used as a value carrier (it drops present-but-empty optional fields of TL2-origin types and does not terminate on recursive ones - DESIGN.md 0.3).",
		Technique:   "property-based testing (rapid): differential check of two schema versions (before/after migration) over generated schemas, whitelists and values",
		Rule:        "in-process case non-trivial iff migration accepted the pair and >= 3 top-level names were checked; pair case non-trivial iff the TL2 encoding has >= 6 bytes; distinct by (schema, whitelist, seeds); classes migration-accepted / migration-refused / partial-whitelist show the domain",
		Assumptions: []string{"a refused migration (TL1 would reference TL2, name collisions, ...) is outside the domain, as the statement says", "union variants stop being registry items after migration: they are compared through the types that contain them"},
		Floors:      []floor{{"migration-accepted", 0.2, "in-process"}, {"partial-whitelist", 0.03, "in-process"}},
		Prepare: func(id, tier string, seed int64, replay string) ([]unit, error) {
			if replay != "" {
				b, _ := os.ReadFile(replay)
				var r struct {
					Test    string `json:"test"`
					Context struct {
						Set  string `json:"schema_set"`
						Text string `json:"schema_text"`
						WL   string `json:"white_list"`
					} `json:"context"`
				}
				json.Unmarshal(b, &r)
				if !strings.HasPrefix(r.Test, "migration-pair/") && r.Test != "pair-build" {
					return inproc(id, tier, seed, replay)
				}
				res, err := pairBuild(r.Context.Set, r.Context.Text, r.Context.WL)
				if err != nil {
					return nil, err
				}
				if res.Broken != "" {
					fmt.Printf("%s\nVIOLATION property=%s replay=%s\n", res.Broken, id, replay)
					cleanup()
					os.Exit(1)
				}
				if res.Refused {
					return nil, fmt.Errorf("migration now refuses the pair of %s", replay)
				}
				return []unit{{Name: "pair-" + r.Context.Set, Binary: res.Binary, Dir: workDir, Run: "^TestGen$", Shards: 1, Timeout: 10 * time.Minute,
					Env: []string{"VERIF_GEN_SET=" + r.Context.Set, "VERIF_GEN_FILES=" + res.Schema, "VERIF_PAIR_WL=" + r.Context.WL}}}, nil
			}
			units, err := inproc(id, tier, seed, replay)
			if err != nil {
				return nil, err
			}
			type job struct {
				name, text string
				cands      []string
			}
			var jobs []job
			if b, err := os.ReadFile(tls + "cases.tl"); err == nil {
				jobs = append(jobs, job{"pcases", string(b), []string{"*"}})
			}
			if b, err := os.ReadFile("/verif/schemas/sink.tl"); err == nil {
				jobs = append(jobs, job{"psink", string(b), []string{"*", "sink."}})
			}
			nrand, perSchema := 1, 1
			if tier == "thorough" {
				nrand, perSchema = 6, 2
			}
			for k := 0; k < nrand; k++ {
				var model *schemagen.Schema
				g := rapid.Custom(func(t *rapid.T) *schemagen.Schema {
					o := schemagen.DefaultOpts()
					o.MinCombs, o.MaxCombs = 10, 26
					return schemagen.Generate(t, o)
				})
				model = g.Example(int(seed*1000003 + int64(k)*7919 + 27))
				jobs = append(jobs, job{fmt.Sprintf("prnd%d_%d", seed, k), model.Text(schemagen.Layout{}), pairCandidates(model, seed+int64(k))})
			}
			shards, to := 2, 10*time.Minute
			if tier == "thorough" {
				shards, to = 4, 40*time.Minute
			}
			for _, j := range jobs {
				done := 0
				for ci, wl := range j.cands {
					if done >= perSchema {
						break
					}
					name := fmt.Sprintf("%sw%d", j.name, ci)
					res, err := pairBuild(name, j.text, wl)
					if err != nil {
						return nil, err
					}
					if res.Broken != "" && os.Getenv("VERIF_DEBUG") != "" {
						fmt.Println(res.Broken)
					}
					if res.Broken != "" {
						path := writePairBuildReplay(id, name, j.text, wl, res.Broken)
						fmt.Printf("%s\nVIOLATION property=%s replay=%s\n", res.Broken, id, path)
						cleanup()
						os.Exit(1)
					}
					if res.Refused {
						continue
					}
					done++
					units = append(units, unit{Name: "pair-" + name, Binary: res.Binary, Dir: workDir, Run: "^TestGen$", Shards: shards, Timeout: to,
						Env: []string{"VERIF_GEN_SET=" + name, "VERIF_GEN_FILES=" + res.Schema, "VERIF_PAIR_WL=" + wl}})
				}
			}
			return units, nil
		},
	}
}
