package main

import "time"

func init() {
	specs["C21"] = &spec{
		LevelText:   "rapid-generated TL1 schemas (harness model: structs, unions, enums, templates with Type and # parameters, local/nested/external masks, repetitions with field and constant scales, arithmetic, explicit and implicit tags, annotations, bare/boxed/%-references, functions) printed in random layouts, plus every .tl file of the repository: parse, print with TL.String(), parse again; the two parses must agree combinator by combinator on a position/comment-free normal form (names, explicit tag, modifiers, template arguments, every field with mask/'!'/repetition/scale arithmetic/type tree and bare flags, result type or function result), on the effective tag and on the section, and printing the second parse must reproduce the first print. For generated schemas the parsed tags must also equal the reference canonical-form CRC32.",
		LevelNote:   "Trusted: the harness' own schema model and its adapter from tlast (schemagen.FromTlast), validated on all 4081 repository combinators.",
		Technique:   "property-based testing (rapid): grammar-based schema generation + round-trip oracle on a normal form",
		Rule:        "non-trivial iff the schema contains a combinator with a mask, repetition, template parameter, type application or explicit tag; distinct by (schema, layout)",
		Assumptions: []string{"comments and positions are not part of the comparison"},
		Prepare:     hTest("props/c21", "^TestC21", hOpts{QShards: 8, TShards: 16, QTimeout: 5 * time.Minute, TTimeout: 60 * time.Minute}),
	}
	specs["C23"] = &spec{
		LevelText:   "rapid-generated TL1 combinators are printed in their plain spelling and in 3..6 tag-preserving re-spellings (whitespace, comments, line breaks, spaces inside brackets, T<a,b> vs (T a b), redundant parentheses, constants spelled as sums); every spelling is parsed and its tag must equal the CRC32-IEEE of the harness' own canonical form of the generated combinator (no braces, single spaces, '%' only before upper-case bare names, arithmetic replaced by its value, '[ t ]' spacing); explicit tags must be returned verbatim. The reference canonical form reproduces all 4081 implicit tags of the repository's schemas and the documented constants (int#a8509bda, vector#1cb5c415, point...=e3fe70f4, ...).",
		LevelNote:   "Trusted: the reference canonical form in schemagen/model.go (independent of tlast's templates).",
		Technique:   "property-based testing (rapid): metamorphic (layout-invariance) + reference-model oracle",
		Rule:        "non-trivial iff the canonical form needs a rule beyond joining tokens (brackets, '%', template parameters, arithmetic); distinct by (combinator, layouts)",
		Prepare:     hTest("props/c21", "^TestC23", hOpts{QShards: 8, TShards: 16, QTimeout: 5 * time.Minute, TTimeout: 60 * time.Minute}),
	}
}
