package main

import "time"

func init() {
	specs["C21"] = &spec{
		LevelText:   "rapid-generated TL1 schemas (harness model: structs, unions, enums, templates with Type and # parameters, local/nested/external masks, repetitions with field and constant scales, arithmetic, explicit and implicit tags, annotations, bare/boxed/%-references, functions) printed in random layouts, plus every .tl file of the repository: parse, print with TL.String(), parse again; the two parses must agree combinator by combinator on a position/comment-free normal form (names, explicit tag, modifiers, template arguments, every field with mask/'!'/repetition/scale arithmetic/type tree and bare flags, result type or function result), on the effective tag and on the section, and printing the second parse must reproduce the first print. For generated schemas the parsed tags must also equal the reference canonical-form CRC32.",
		LevelNote:   "Trusted: the harness' own schema model and its adapter from tlast (schemagen.FromTlast), validated on all 4081 repository combinators.",
		Technique:   "property-based testing (rapid): grammar-based schema generation + round-trip oracle on a normal form",
		Rule:        "non-trivial iff the schema contains a combinator with a mask, repetition, template parameter, type application or explicit tag; distinct by (schema, layout)",
		Assumptions: []string{"comments and positions are not part of the comparison"},
		Prepare:     hTest("props/c21", "^TestC21", hOpts{QShards: 8, TShards: 16, QTimeout: 5 * time.Minute, TTimeout: 60 * time.Minute}),
	}
	specs["C23"] = &spec{
		LevelText:   "rapid-generated TL1 combinators are printed in their plain spelling and in 3..6 tag-preserving re-spellings (whitespace, comments, line breaks, spaces inside brackets, T<a,b> vs (T a b), redundant parentheses, constants spelled as sums); every spelling is parsed and its tag must equal the CRC32-IEEE of the harness' own canonical form of the generated combinator (no braces, single spaces, '%' only before upper-case bare names, arithmetic replaced by its value, '[ t ]' spacing); explicit tags must be returned verbatim. The reference canonical form reproduces all 4081 implicit tags of the repository's schemas and the documented constants (int#a8509bda, vector#1cb5c415, point...=e3fe70f4, ...).",
		LevelNote:   "Trusted: the reference canonical form in schemagen/model.go (independent of tlast's templates).",
		Technique:   "property-based testing (rapid): metamorphic (layout-invariance) + reference-model oracle",
		Rule:        "non-trivial iff the canonical form needs a rule beyond joining tokens (brackets, '%', template parameters, arithmetic); distinct by (combinator, layouts)",
		Prepare:     hTest("props/c21", "^TestC23", hOpts{QShards: 8, TShards: 16, QTimeout: 5 * time.Minute, TTimeout: 60 * time.Minute}),
	}
}

func init() {
	specs["C25"] = &spec{
		LevelText:   "rapid-generated TL1 schemas (written as one or two files, random layout) and the repository's schema sets are listed by the real CLI (tl2gen --language=canonical, built from the working tree); oracle in three layers: (1) structure: the five builtin lines, then exactly one line per constructor/function in input order, each ending with its source file; (2) content: the text before the comment equals name#<effective tag> {template arguments} followed by the harness' reference canonical form of the combinator (so names, tags, template arguments, every field and the result are pinned); (3) parse-back: the line terminated with ';' (in the functions section for functions) parses into one combinator equal to the input's on a normal form (annotations and constant spelling aside).",
		LevelNote:   "Trusted: schemagen's reference canonical form and tlast adapter. Layer (3) is suspended for combinators containing a type application (known finding F11); layers (1) and (2) apply to all.",
		Technique:   "property-based testing (rapid): generated schemas through the real CLI, reference-model + parse-back oracles",
		Rule:        "non-trivial iff some combinator has a mask, brackets, template argument, explicit tag or type application; distinct by (schema, layout, split); classes: multi-file, repository-schema, parse-back-checked",
		Assumptions: []string{"modifiers are not compared (the statement lists names, tags, template arguments, fields and result types)", "a schema the generator rejects with a message is outside the property"},
		Floors:      []floor{{"parse-back-checked", 0.5, ""}},
		Prepare:     hTest("props/cli", "^TestC25", hOpts{QShards: 8, TShards: 16, QTimeout: 8 * time.Minute, TTimeout: 60 * time.Minute, Tools: []string{"tl2gen"}}),
	}
	specs["C26"] = &spec{
		LevelText:   "rapid-generated TL1 schemas (one or two files) and the repository's schema sets are compiled to TLO by the real CLI (tl2gen --language=tlo --schemaTimestamp=<random non-zero>); the file is decoded by the harness' own reader of the TLO format (hand-written from tls.tl, must consume the file exactly) and compared with the schema: date = timestamp; constructors and functions each exactly once with (name id, tag); every declared type exactly once with arity, params_type bitmask, constructor count and name = XOR of its constructors' tags; constructors point at their type's name.",
		LevelNote:   "Trusted: the harness' TLO reader (props/cli/tlo.go) and schemagen's reference tags.",
		Technique:   "property-based testing (rapid): generated schemas through the real CLI, independent decoder + reference-model oracle",
		Rule:        "non-trivial iff the schema has a union and a function; distinct by (schema, layout, split, timestamp)",
		Assumptions: []string{"--schemaTimestamp=0 means 'now' and is not used"},
		Prepare:     hTest("props/cli", "^TestC26", hOpts{QShards: 8, TShards: 16, QTimeout: 8 * time.Minute, TTimeout: 60 * time.Minute, Tools: []string{"tl2gen"}}),
	}
}

func init() {
	specs["C24"] = &spec{
		LevelText:   "rapid-generated TL1 schemas (one or two files) with a planted tag defect in two thirds of the cases - two equal explicit tags, an explicit tag equal to the CRC32 implicit tag of another combinator (either declaration order), an explicit zero tag, a function tag equal to a type constructor's tag - are given to both generators through their CLIs (tl2gen --language=lint and tlgen in linter mode, built from the working tree). The harness recomputes every effective tag with its own reference canonical form; whenever a generator exits 0 all tags must be pairwise distinct and non-zero, a rejection must carry a message, and neither may crash.",
		LevelNote:   "Trusted: schemagen's reference tags (validated on the repository's 4081 combinators). TL2 magics are covered only as far as the generated TL1 schemas go.",
		Technique:   "property-based testing (rapid): fault-planting schema generator + reference-model oracle through both CLIs",
		Rule:        "non-trivial iff a collision / zero tag was planted; distinct by (schema, plant, positions); classes report per-tool verdicts so that vacuous rejection of clean schemas is visible",
		Assumptions: []string{"a clean schema may still be rejected by a generator for reasons unrelated to tags (counted in the classes)"},
		Floors:      []floor{{"tl2gen-accepts", 0.2, ""}, {"tlgen-accepts", 0.15, ""}},
		Prepare:     hTest("props/cli", "^TestC24", hOpts{QShards: 8, TShards: 16, QTimeout: 8 * time.Minute, TTimeout: 60 * time.Minute, Tools: []string{"tl2gen", "tlgen"}}),
	}
}

func init() {
	specs["C14"] = &spec{
		LevelText:   "rapid-generated TL1 schemas, unmodified or under one structured edit that may invalidate them (duplicate name, undefined type, forward mask reference, names differing only by case, bare recursion cycle, dropped template argument, field named like a generated method or Go keyword, same short name in two namespaces, function used as a type), crossed with generator options (--split-internal, --tl2WhiteList none/*/namespaces, --generateByteVersions none/*/namespaces, --generateRandomCode, --generateRPCCode, --checkLengthSanity) are given to the real tl2gen --language=go built from the working tree. Oracle: exit 0 => the output compiles with 'go build ./...' against /repo/pkg/basictl (and pkg/rpc); exit 1 => a message was printed and the output directory is empty; any panic trace, signal or other exit code is a violation, as is success with a 'will not compile' formatter message.",
		LevelNote:   "Trusted: Go toolchain. One go build per accepted schema bounds the number of cases (48 quick / 1200 thorough).",
		Technique:   "property-based testing (rapid): grammar-based + mutation-based schema generation through the real generator and compiler",
		Rule:        "non-trivial iff the schema has >= 6 user combinators and built, or a semantic edit was applied; distinct by (schema, edit, options)",
		Assumptions: []string{"TL2-native input files are exercised by the hand-written TL2 schema sets of the codegen checks, not generated here"},
		Floors:      []floor{{"built", 0.25, ""}},
		Prepare:     hTest("props/cli", "^TestC14", hOpts{QShards: 8, TShards: 16, QTimeout: 15 * time.Minute, TTimeout: 120 * time.Minute, Tools: []string{"tl2gen"}}),
	}
}

func init() {
	specs["C15"] = &spec{
		LevelText:   "rapid-generated TL1 schemas written as 1..3 files (file names sorting differently from creation order) and the repository's schema sets, for each output language (tl2gen: go, go --split-internal, canonical, tlo with a fixed non-zero timestamp, tljson.html, php; tlgen: cpp, php) and drawn Go options: the generator is run in three fresh processes - GOMAXPROCS 1..3 with the files in order, GOMAXPROCS 3..16 with the files listed in reverse order or the containing directory listed instead, and the first configuration again; all output trees must be byte-identical (path -> content), and exit codes must agree.",
		LevelNote:   "Each run is a new process, so Go's per-process map iteration seeds differ between the runs. Besides the random cases every repository / kitchen-sink schema set is generated for go, go --split-internal and cpp on every run (enumerated, not drawn). Trusted: sha256 of the trees.",
		Technique:   "property-based testing (rapid): metamorphic relation (same schema, different schedule / map seed / input listing => identical output) through the real CLIs",
		Rule:        "non-trivial iff >= 2 input files or >= 20 output files; distinct by (schema, language, options, configurations); classes per language",
		Assumptions: []string{"--schemaTimestamp=0 is documented as 'now' and is never used", "a schema rejected by a back end (php/cpp have their own restrictions) must be rejected identically in all runs"},
		Prepare:     hTest("props/cli", "^TestC15", hOpts{QShards: 8, TShards: 16, QTimeout: 10 * time.Minute, TTimeout: 90 * time.Minute, Tools: []string{"tl2gen", "tlgen"}}),
	}
	specs["C16"] = &spec{
		LevelText:   "Stateful property over one output directory: 2..7 steps drawn from {generate schema A/B/C (different namespaces, with or without --split-internal), drop foreign files into the output directory, plant a stale generated-looking file, delete the marker meta/meta.go}, with the runtime library either inside the output directory or at the location derived from the package paths. After every successful generation the directory must equal a pristine generation of the same schema into an empty directory (no missing, stale or foreign files, no empty directories), files whose content did not change must keep their modification time, the printed 'N untouched / M written / K deleted' line must be consistent with the observed changes, and nothing outside the output directory and the derived basictl location may change; a generation into a non-empty directory lacking the marker must be refused and leave the directory untouched.",
		LevelNote:   "Trusted: file system of the sandbox; the pristine generation uses the same generator binary (the oracle is differential in the directory state, not in the generated contents).",
		Technique:   "property-based testing (rapid): stateful history against a model (pristine generation) with invariants after every step",
		Rule:        "non-trivial iff the history has >= 2 successful generations of different (schema, split) combinations, or is a refusal scenario; distinct by history",
		Prepare:     hTest("props/cli", "^TestC16", hOpts{QShards: 8, TShards: 16, QTimeout: 10 * time.Minute, TTimeout: 90 * time.Minute, Tools: []string{"tl2gen"}}),
	}
}

func init() {
	specs["C29"] = &spec{
		LevelText:   "rapid-generated base schemas and sequences of 1..4 edits drawn only from the documented safe grammar - identity; append a field guarded by an unused bit of a local field mask (a # field of the same constructor that is not passed to another type); append a constructor to a union type (unions are referenced boxed only); add a new type; add a new function whose first argument is a field mask (also with further arguments) - with the new schema printed in a random layout; the verdict is computed in-process exactly as cmd/tlgen does (parse, GenerateCode for the new schema, CheckBackwardCompatibility(new, old)). Oracle: accept (nil); a rejection or a panic is a violation.",
		LevelNote:   "Trusted: the harness' safe-edit grammar is a subset of the documented safe evolutions (README of backward_compatibility_samples and the property text).",
		Technique:   "property-based testing (rapid): grammar-based edit sequences on generated schemas, verdict oracle",
		Rule:        "non-trivial iff at least one non-identity edit was applied; distinct by (schema, edits)",
		Prepare:     hTest("props/lint", "^TestC29", hOpts{QShards: 8, TShards: 16, QTimeout: 8 * time.Minute, TTimeout: 60 * time.Minute}),
	}
}

func init() {
	specs["C30"] = &spec{
		LevelText:   "rapid-generated base schemas and exactly one edit from the documented unsafe grammar applied at a uniformly drawn position (constructor, field, nesting depth): remove a function / constructor / field / template argument (and its uses); change a primitive leaf of a field's type at any depth, including inside n*[...] and inside template arguments; change a field's mask bit or mask reference; add a mask to, or remove it from, an existing field; append an unmasked field; append a field that reuses a meaningful bit; give a bare-used single-constructor type a second constructor. Old and new schema are printed in independently shuffled declaration orders (the linter walks file order) and the new one in a random layout. The verdict is computed in-process as cmd/tlgen does; only pairs whose new schema still compiles count. Oracle: an error value - acceptance or a panic is a violation.",
		LevelNote:   "Trusted: the harness' unsafe-edit grammar (each edit changes the TL1 wire format of some old value, which C28 checks independently for the accepted ones).",
		Technique:   "property-based testing (rapid): grammar-based single-fault injection on generated schemas, verdict oracle",
		Rule:        "non-trivial iff the edit applied and the new schema compiled; distinct by (schema, edit, order); classes per edit kind",
		Floors:      []floor{{"change-field-type", 0.1, ""}, {"remove-field", 0.03, ""}},
		Prepare:     hTest("props/lint", "^TestC30", hOpts{QShards: 8, TShards: 16, QTimeout: 8 * time.Minute, TTimeout: 60 * time.Minute}),
	}
}

func init() {
	specs["C28"] = &spec{
		LevelText:   "rapid-generated (old, new) schema pairs: new = old under 1..3 edits drawn from the safe grammar, the unsafe grammar and further edits the documents do not classify (rename a field, flip int/Int boxedness, change an explicit tag, swap adjacent fields, change a constant or field-valued template argument). The verdict is computed as cmd/tlgen does. Whenever the linter accepts, the harness' independent TL1 reference codec (refcodec: generator, encoder, decoder over the schema model) draws 6 values per old top-level constructor/function whose masks use only bits meaningful in the old schema and requires: the value encodes under the new schema, to the same bytes (for appended function arguments: followed by zero words for the appended masks), and the old bytes decode under the new schema completely and re-encode unchanged.",
		LevelNote:   "Trusted: refcodec (written from the format documents, self-checked by round trip on generated schemas; it shares no code with /repo) and schemagen.",
		Technique:   "property-based testing (rapid): differential oracle between two schema versions through an independent reference codec, conditioned on the linter's verdict",
		Rule:        "non-trivial iff the linter accepted a pair with at least one effective edit and values were compared; distinct by (schema, edits, value seed); classes accepted / rejected / not-a-pair show how many pairs reach the oracle",
		Assumptions: []string{"old values use only mask bits the old schema gives meaning to (as the statement says)"},
		Floors:      []floor{{"accepted-with-edits", 0.15, ""}},
		Prepare:     hTest("props/lint", "^TestC28", hOpts{QShards: 8, TShards: 16, QTimeout: 8 * time.Minute, TTimeout: 60 * time.Minute}),
	}
}

func init() {
	specs["C22"] = &spec{
		LevelText:   "rapid-generated TL2 texts written token by token from the grammar in internal/tlast/tlparser_tl2.go (annotations, namespaces, magics, template parameters, aliases, structs of 0..12 fields, optional / ignored '_' / '_name' / upper-case field names, bracket types with and without index, nested type applications with numeric arguments, unions with and without the leading bar including single-variant ones, alias variants, the reserved word Type as a variant name, functions with every return form) with random layout and comments before combinators, variants and fields and to the right of fields; plus every .tl2 file of the repository. For the default and the canonical options: the formatted text must parse, parse to the same declarations (compared by reflection with positions and comment fields cleared), and formatting that text again must give the same text.",
		LevelNote:   "Trusted: the harness text generator and the reflection-based comparison. Parser and formatter are /repo's; a text the parser rejects is outside the domain (counted).",
		Technique:   "property-based testing (rapid): grammar-based text generation, round-trip and idempotence oracles",
		Rule:        "non-trivial iff the file has >= 2 declarations, or a union, or the default formatting wraps lines; distinct by text; classes show how many inputs the parser accepted",
		Assumptions: []string{"'the same declarations' ignores source positions and comments (the canonical options drop comments by design)"},
		Floors:      []floor{{"parsed", 0.5, ""}, {"union", 0.15, ""}, {"wrapped-lines", 0.1, ""}},
		Prepare:     hTest("props/c22", "^TestC22", hOpts{QShards: 8, TShards: 16, QTimeout: 8 * time.Minute, TTimeout: 60 * time.Minute}),
	}
}

