package main

import "time"

func init() {
	specs["C38"] = &spec{
		LevelText:   "rapid-generated concurrent scenarios against a real rpc.Server and 1..3 rpc.Clients over TCP loopback / Unix sockets, encryption on/off, worker limits 1..64, GOMAXPROCS 1..16, built with the race detector: 1..8 goroutines issue sequences of calls whose handler behaviour is encoded in the request (echo a keyed transformation of the body, return a keyed rpc.Error, sleep then echo with a client timeout or cancellation placed within +-1.5 ms of the handler latency so that response and timeout race, wait for cancellation), responses are returned to the client's pool, and optionally the client or the server is closed mid-flight. Oracle per call: the result is its own keyed response, its own keyed error, its own context error, a server-side timeout of its own deadline, or (only when a close was scheduled) a connection-closed error; a payload or error carrying another call's key is a violation; all calls return within a bound; the race detector stays silent.",
		LevelNote:   "Schedules are sampled from the Go scheduler, not enumerated: an interleaving-specific bug can be missed. Trusted: sockets of the sandbox, the race detector.",
		Technique:   "property-based testing (rapid) of generated concurrent scenarios with per-call ownership oracle, under -race",
		Rule:        "non-trivial iff >=2 goroutines, >=6 calls and >=1 successful own response; distinct by the scenario; classes: timeout-races-response, close-client, close-server, ctx/conn/own errors seen",
		Assumptions: []string{"calls that could otherwise wait for a reconnect after the server is closed are given a deadline (documented client lifecycle)", "request bodies start with a non-protocol tag"},
		Floors:      []floor{{"timeout-races-response", 0.3, ""}, {"close-client", 0.08, ""}, {"close-server", 0.08, ""}},
		Prepare:     hTest("props/rpcx", "^TestC38", hOpts{Race: true, QShards: 8, TShards: 16, QTimeout: 10 * time.Minute, TTimeout: 90 * time.Minute, Env: []string{"GORACE=halt_on_error=1"}}),
	}
}
