package main

import "time"

func init() {
	specs["C39"] = &spec{
		LevelText:   "rapid-generated bursts against a real rpc.Server with MaxWorkers 1..4 and the request memory limit at its documented minimum (or 20 MiB): 2..10 client connections x 1..4 concurrent requests whose accounted size is either real (0.5..5 MiB bodies) or inflated through the request buffer size option (1..5 MiB accounted per tiny request), so that the burst exceeds both limits; handlers block on a gate that the harness opens one handler at a time. Oracle: the handler-side concurrency high-water mark never exceeds MaxWorkers; Server.RequestsMemory() sampled inside every handler and by a 20 kHz sampler never exceeds its limit; the reported limit equals the documented clamp; every request completes successfully once the gate opens (excess load waits instead of failing).",
		LevelNote:   "The memory clause is sampled (handler entry/exit + sampler goroutine), so a transient overshoot between samples can be missed. Trusted: exported accessors RequestsMemory(); sockets of the sandbox.",
		Technique:   "property-based testing (rapid): generated load bursts with invariant sampling (concurrency high-water mark, accounted memory) and completion check",
		Rule:        "non-trivial iff the burst's accounted request memory exceeds the limit and the number of requests exceeds MaxWorkers; distinct by the burst description",
		Assumptions: []string{"limits below 16 MiB-1 are clamped to it (ServerWithRequestMemoryLimit)", "a watchdog hit (burst not finished in 60 s) is inconclusive, not a violation"},
		Floors:      []floor{{"over-memory-limit", 0.3, ""}, {"over-worker-limit", 0.6, ""}},
		Prepare:     hTest("props/rpcx", "^TestC39", hOpts{QShards: 8, TShards: 16, QTimeout: 10 * time.Minute, TTimeout: 90 * time.Minute}),
	}
}
