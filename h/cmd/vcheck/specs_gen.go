package main

import "time"

const genNote = "Trusted: Go toolchain, the harness (gch) and its reflection-based value mutator. tl2gen is rebuilt from /repo's working tree, code is generated and compiled against /repo/pkg/basictl on every run; values come from the generated FillRandom driven by a harness PRNG with size/mask profiles plus reflection leaf mutation (arbitrary byte strings, float bit patterns, integer boundaries; uint32 fields untouched because they may be masks/sizes). Schemas in this tier are the repository's (cases.tl, goldmaster*.tl, schema.tl); random schemas are added by the schema generator where noted."

func genSpec(text, technique, rule string, assumptions []string, floors []floor, o gOpts) *spec {
	if o.QSets == nil {
		o.QSets = []string{"cases", "goldmaster", "sink", "casestl2"}
	}
	if o.TSets == nil {
		o.TSets = []string{"cases", "goldmaster", "sink", "schema", "casestl2"}
	}
	if o.QRand == 0 { // every generated-code property also runs on freshly drawn random schemas (randset.go)
		o.QRand = 1
	}
	if o.TRand == 0 {
		o.TRand = 6
	}
	if o.QShards == 0 {
		o.QShards = 6
	}
	if o.TShards == 0 {
		o.TShards = 8
	}
	if o.QTimeout == 0 {
		o.QTimeout = 10 * time.Minute
	}
	if o.TTimeout == 0 {
		o.TTimeout = 90 * time.Minute
	}
	return &spec{LevelText: text, LevelNote: genNote, Technique: technique, Rule: rule, Assumptions: assumptions, Floors: floors, Prepare: genTest(o)}
}

func init() {
	specs["C01"] = genSpec(
		"For every TL1-capable registry item of freshly generated code (string and []byte variants): value -> WriteTL1General -> ReadTL1 into a fresh object with 7 appended bytes -> exact remainder -> second write byte-identical; same for the boxed pair; boxed bytes start with TLTag() and equal tag||bare (or bare for boxed-only types). ~150 values per type per schema set in the quick tier.",
		"property-based testing (rapid) over generated values of freshly generated code: round-trip oracle",
		"value = FillRandom(seed, profile) + k leaf mutations; non-trivial iff TL1 encoding >= 8 bytes and differs from the zero value's; distinct by (schema set, item, variant, seed, profile, mutations)",
		[]string{"the length-mismatch clause (values whose array lengths disagree with their size parameters must be write errors) is checked in the schema-aware part"},
		[]floor{{"enc>=64", 0.03, ""}, {"leaf-mutated", 0.3, ""}}, gOpts{})
	specs["C03"] = genSpec(
		"For every TL2-enabled item: values from FillRandom+mutation and values obtained by decoding mutated/arbitrary TL2 bytes are written with WriteTL2 (a panic such as the internal calculate/write mismatch is a violation), read back into a fresh object with appended bytes (exact remainder), written again (identical), and written with a reused TL2WriteContext (identical).",
		"property-based testing (rapid): round-trip oracle incl. values decoded from mutated bytes",
		"non-trivial iff the TL2 encoding is >= 3 bytes and differs from the zero value's; classes report values that came from decoded bytes",
		nil, []floor{{"value-from-decoded-bytes", 0.05, ""}}, gOpts{})
	specs["C04"] = genSpec(
		"For every item with both TL1 and TL2 code: valid TL1 bytes -> ReadTL1 -> WriteTL2 -> ReadTL2 into a fresh object -> WriteTL1 must reproduce the TL1 bytes, and the JSON of the TL1-decoded and TL2-decoded objects must be equal.",
		"property-based testing (rapid): conversion round trip + JSON equality oracle",
		"non-trivial iff the TL1 encoding is >= 8 bytes and differs from the zero value's",
		nil, nil, gOpts{})
	specs["C05"] = genSpec(
		"For every item: WriteJSONGeneral (Short / LegacyTypeNames drawn) must be valid JSON (encoding/json), ReadJSONGeneral into a fresh object must accept it and consume it, the JSON of the result must be identical, and its TL1 and TL2 encodings must equal the original's. Strings are arbitrary byte sequences (invalid UTF-8, controls, U+2028/9, CR), floats arbitrary bit patterns incl. +-Inf and NaN.",
		"property-based testing (rapid): validity + round-trip oracle across three encodings",
		"non-trivial iff the JSON text is >= 8 bytes and differs from the zero value's; class has-nan counts values for which binary comparison is skipped",
		[]string{"all NaN payloads are one JSON value (\"NaN\"): for values containing a NaN only the JSON texts are compared"},
		[]floor{{"leaf-mutated", 0.3, ""}}, gOpts{})
}
