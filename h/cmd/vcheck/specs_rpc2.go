package main

import "time"

func init() {
	specs["C40"] = &spec{
		LevelText:   "rapid-generated calls over real rpc.Server / rpc.Client pairs (TCP loopback and Unix sockets, encryption forced on/off, TL1 and TL2 body formats): random request extras (every data-carrying flag bit except no_result/persistent_query: requester id, shard/binlog waits, string/int forward keys, custom timeout, compression version, random delay, trace context with all mask bits, execution context, plus the pure marker bits), actor id and body; the handler records what it saw and answers with a random response extra and either a body or a random rpc.Error. Oracle: handler-side actor id, body format, body and request extra (compared as canonical TL1 bytes and flags) equal what was sent; client-side response extra equals the handler's extra restricted to the request's flag bits (documented), error code/description equal (code 0 mapped to Unknown as documented), response body equal; with a context deadline the custom timeout seen is positive and not above both the set value and the deadline.",
		LevelNote:   "Trusted: loopback/Unix sockets of the sandbox; comparison through the generated TL1 writers of the extras (canonical form). Flags no_result (changes the call protocol) and persistent_query are not generated.",
		Technique:   "property-based testing (rapid): round-trip oracle over generated extras/errors through real sockets, both header formats",
		Rule:        "non-trivial iff the request sets >=1 flag and >=1 response-extra field requested by the client is set by the handler; distinct by the full case; classes report TL1/TL2, error/success, restricted/delivered response flags, context deadline, encryption",
		Assumptions: []string{"response extras are compared modulo the documented intersection with the request flags ('return only fields they understand')", "error code 0 is transmitted as tlerrorcodes.Unknown (documented in prepareResponseBody)", "request bodies start with a non-protocol tag as every real caller's do; TL1-format bodies are multiples of 4 bytes"},
		Floors:      []floor{{"tl2=true", 0.3, ""}, {"err=true", 0.2, ""}, {"resp-extra-delivered", 0.3, ""}},
		Prepare:     hTest("props/rpcx", "^TestC40", hOpts{QShards: 8, TShards: 16, QTimeout: 6 * time.Minute, TTimeout: 60 * time.Minute}),
	}
}
