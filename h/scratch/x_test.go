package scratch

import (
	"encoding/hex"
	"fmt"
	"os"
	"strings"
	"testing"

	"github.com/VKCOM/tl/internal/pure"
	"github.com/VKCOM/tl/internal/pure/onthefly"
)

func TestX(t *testing.T) {
	k := pure.NewKernel(&pure.OptionsKernel{TypesWhiteList: "*", TL2WhiteList: "*"})
	if err := k.AddFileTL1("/repo/internal/tlcodegen/test/tls/cases.tl"); err != nil {
		t.Fatal(err)
	}
	if err := k.Compile(); err != nil {
		t.Fatal(err)
	}
	ins := k.GetObjectInstanceForTests("cases.testInplaceStructArgs2")
	v := onthefly.CreateValue(ins)
	hx, _ := os.ReadFile("/tmp/in.hex")
	in, _ := hex.DecodeString(strings.TrimSpace(string(hx)))
	rest, err := v.ReadTL2(in, nil)
	fmt.Println(len(in), len(rest), err)
	fmt.Printf("%.600s\n", v.WriteJSON(nil, nil))
}
