package scratch

import (
	"fmt"
	"testing"

	"github.com/VKCOM/tl/internal/tlast"
)

func TestX(t *testing.T) {
	f, err := tlast.ParseTL2("a = A x:int | B // about y y:int z:int;\nb = x:int;\n")
	fmt.Println(err)
	fmt.Println(f.String())
}
