package schemagen

import (
	"fmt"
	"strings"

	"pgregory.net/rapid"
)

// GenOpts are the feature knobs of the generator (each is reported in evidence by the checks that use it).
type GenOpts struct {
	MinCombs, MaxCombs int
	Namespaces         []string
	Functions          bool
	Templates          bool
	Recursion          bool
	ExplicitTags       bool // some combinators get explicit tags
	EmptyElems         bool // allow arrays whose elements may be empty (finding F5 class)
	NestedMasks        bool // mask fields that are themselves masked
	Arithmetic         bool // constants spelled as sums
	MaskForward        bool // a function whose # argument reaches several instantiations of one template through its result
}

func DefaultOpts() GenOpts {
	return GenOpts{MinCombs: 6, MaxCombs: 26, Namespaces: []string{"", "a", "b", "svc"}, Functions: true, Templates: true, Recursion: true, ExplicitTags: true, NestedMasks: true, Arithmetic: true}
}

type userType struct {
	TypeName string
	Ctors    []string
	Params   []Param
	Sized    bool // has at least 4 bytes in every value (never empty)
}

type gen struct {
	rt    *rapid.T
	o     GenOpts
	s     *Schema
	types []userType
	names map[string]bool
	tags  map[uint32]bool
	seq   int
}

var fieldNames = []string{"a", "b", "c", "x", "y", "z", "id", "key", "value", "count", "items", "data", "name", "flags", "owner", "ts", "pos", "len", "kind", "next", "prev", "body", "extra", "f1", "f2", "f3", "w", "q"}

func (g *gen) pick(label string, xs ...string) string { return rapid.SampledFrom(xs).Draw(g.rt, label) }
func (g *gen) n(label string, lo, hi int) int         { return rapid.IntRange(lo, hi).Draw(g.rt, label) }
func (g *gen) p(label string, percent int) bool {
	return rapid.IntRange(0, 99).Draw(g.rt, label) < percent
}

func (g *gen) freshName(base string) (ctor, typ string) {
	ns := g.pick("ns", g.o.Namespaces...)
	// now and then a namespaced constructor whose short name is that of a builtin (a.string = a.String)
	if ns != "" && g.p("builtinlike", 6) {
		c := g.pick("builtinname", "int", "long", "string", "float", "double", "true")
		if full := ns + "." + c; !g.names[full] {
			g.names[full] = true
			return full, ns + "." + string(c[0]-'a'+'A') + c[1:]
		}
	}
	for {
		g.seq++
		c := fmt.Sprintf("%s%d", base, g.seq)
		full := c
		if ns != "" {
			full = ns + "." + c
		}
		if !g.names[full] {
			g.names[full] = true
			t := string(c[0]-'a'+'A') + c[1:]
			if ns != "" {
				t = ns + "." + t
			}
			return full, t
		}
	}
}

type scope struct {
	sizes   []string // nat sources usable as sizes (fields or params)
	masks   []string // nat sources usable as masks
	tparams []string
	used    map[string]bool // field names
	self    string          // type being defined (for recursion)
}

func (g *gen) constNat(lo, hi uint32) *NatExpr {
	c := uint32(g.n("const", int(lo), int(hi)))
	n := &NatExpr{Kind: "const", Const: c}
	if g.o.Arithmetic && c >= 2 && g.p("arith", 25) {
		a := uint32(g.n("arith_a", 0, int(c)))
		n.Sum = []uint32{a, c - a}
	}
	return n
}

// genType draws a field type. sized: the type must occupy >= 4 bytes in every value.
func (g *gen) genType(sc *scope, depth int, sized bool) TypeExpr {
	prim := func() TypeExpr {
		return TypeExpr{Kind: "ref", Name: g.pick("prim", "int", "long", "string", "float", "double", "int", "string")}
	}
	if depth >= 3 {
		return prim()
	}
	arg := func(t TypeExpr) Arg { return Arg{Type: &t} }
	switch g.n("shape", 0, 15) {
	case 0, 1, 2, 3:
		return prim()
	case 4: // boxed builtin
		return TypeExpr{Kind: "ref", Name: g.pick("boxed", "Int", "Long", "String", "Bool", "Double")}
	case 5: // vector
		if g.p("angle", 30) {
			return TypeExpr{Kind: "ref", Name: "vector", Args: []Arg{arg(g.genType(sc, depth+1, !g.o.EmptyElems))}}
		}
		return TypeExpr{Kind: "ref", Name: g.pick("vec", "vector", "Vector"), Args: []Arg{arg(g.genType(sc, depth+1, !g.o.EmptyElems))}}
	case 6: // tuple with constant or field size
		var n *NatExpr
		if len(sc.sizes) > 0 && g.p("fieldsize", 50) {
			n = &NatExpr{Kind: "field", Name: sc.sizes[g.n("size", 0, len(sc.sizes)-1)]}
		} else {
			n = g.constNat(0, 4)
		}
		return TypeExpr{Kind: "ref", Name: g.pick("tup", "tuple", "Tuple"), Args: []Arg{arg(g.genType(sc, depth+1, !g.o.EmptyElems)), {Nat: n}}}
	case 7:
		return TypeExpr{Kind: "ref", Name: "Maybe", Args: []Arg{arg(g.genType(sc, depth+1, false))}}
	case 8:
		return TypeExpr{Kind: "ref", Name: g.pick("dict", "dictionary", "Dictionary"), Args: []Arg{arg(g.genType(sc, depth+1, false))}}
	case 9:
		k := TypeExpr{Kind: "ref", Name: g.pick("dkey", "int", "long", "string")}
		return TypeExpr{Kind: "ref", Name: "dictionaryAny", Args: []Arg{arg(k), arg(g.genType(sc, depth+1, false))}}
	case 10:
		return TypeExpr{Kind: "ref", Name: "pair", Args: []Arg{arg(g.genType(sc, depth+1, true)), arg(g.genType(sc, depth+1, false))}}
	case 11: // repetition n*[t]
		if len(sc.sizes) == 0 || depth > 0 { // repetitions are only written directly as a field's type
			return prim()
		}
		n := &NatExpr{Kind: "field", Name: sc.sizes[g.n("size", 0, len(sc.sizes)-1)]}
		return TypeExpr{Kind: "brackets", Scale: n, Rep: []Field{{Type: g.genType(sc, depth+1, !g.o.EmptyElems)}}}
	case 12: // type parameter
		if len(sc.tparams) > 0 && !sized {
			return TypeExpr{Kind: "tparam", Name: sc.tparams[g.n("tp", 0, len(sc.tparams)-1)]}
		}
		return prim()
	default: // earlier user type
		var cands []userType
		for _, u := range g.types {
			if sized && !u.Sized {
				continue
			}
			cands = append(cands, u)
		}
		if len(cands) == 0 {
			return prim()
		}
		u := cands[g.n("utype", 0, len(cands)-1)]
		t := TypeExpr{Kind: "ref", Name: u.TypeName}
		if len(u.Ctors) == 1 && g.p("bare", 50) {
			t.Name = u.Ctors[0] // bare through the constructor name
			if g.p("pct", 20) {
				t.Name, t.Bare = u.TypeName, true
			}
		}
		for _, p := range u.Params {
			if p.IsNat {
				if len(sc.masks) > 0 && p.Name == "m" {
					t.Args = append(t.Args, Arg{Nat: &NatExpr{Kind: "field", Name: sc.masks[g.n("maskarg", 0, len(sc.masks)-1)]}})
				} else if len(sc.sizes) > 0 && p.Name != "m" && g.p("natfield", 50) {
					t.Args = append(t.Args, Arg{Nat: &NatExpr{Kind: "field", Name: sc.sizes[g.n("sizearg", 0, len(sc.sizes)-1)]}})
				} else {
					t.Args = append(t.Args, Arg{Nat: g.constNat(0, 5)})
				}
			} else {
				t.Args = append(t.Args, arg(g.genType(sc, depth+1, false)))
			}
		}
		return t
	}
}

func (g *gen) fieldName(sc *scope) string {
	for i := 0; ; i++ {
		n := fieldNames[g.n("fname", 0, len(fieldNames)-1)]
		if i > 6 {
			n = fmt.Sprintf("%s%d", n, i)
		}
		if !sc.used[n] {
			sc.used[n] = true
			return n
		}
	}
}

// genFields draws the fields of a struct-like combinator.
func (g *gen) genFields(sc *scope, lo, hi int) ([]Field, bool) {
	n := g.n("nfields", lo, hi)
	var out []Field
	sized := false
	type maskState struct {
		name string
		bits map[int]bool
	}
	var masks []*maskState
	for _, m := range sc.masks {
		masks = append(masks, &maskState{m, map[int]bool{}})
	}
	for i := 0; i < n; i++ {
		switch r := g.n("fkind", 0, 11); {
		case r == 0 && i < n-1: // a new local mask
			name := g.fieldName(sc)
			f := Field{Name: name, Type: TypeExpr{Kind: "prim", Name: "#"}}
			if g.o.NestedMasks && len(masks) > 0 && g.p("nestedmask", 35) {
				m := masks[g.n("mask", 0, len(masks)-1)]
				f.Mask = &MaskRef{Src: m.name, Bit: g.freeBit(m.bits)}
			}
			out = append(out, f)
			masks = append(masks, &maskState{name, map[int]bool{}})
			sc.masks = append(sc.masks, name)
			sized = sized || f.Mask == nil
		case r == 1: // a size field
			name := g.fieldName(sc)
			out = append(out, Field{Name: name, Type: TypeExpr{Kind: "prim", Name: "#"}})
			sc.sizes = append(sc.sizes, name)
			sized = true
		case r <= 5 && len(masks) > 0: // masked field
			m := masks[g.n("mask", 0, len(masks)-1)]
			f := Field{Name: g.fieldName(sc), Mask: &MaskRef{Src: m.name, Bit: g.freeBit(m.bits)}}
			if g.p("truefield", 30) {
				f.Type = TypeExpr{Kind: "ref", Name: "true"}
				// a namespaced struct that is merely called true is an ordinary type, not a bit
				for _, u := range g.types {
					if len(u.Params) == 0 && len(u.Ctors) == 1 && strings.HasSuffix(u.Ctors[0], ".true") && g.p("nstrue", 50) {
						f.Type = TypeExpr{Kind: "ref", Name: u.Ctors[0]}
						break
					}
				}
			} else {
				f.Type = g.genType(sc, 0, false)
			}
			out = append(out, f)
		default:
			f := Field{Name: g.fieldName(sc), Type: g.genType(sc, 0, false)}
			out = append(out, f)
			if f.Type.Kind == "ref" && (f.Type.Name == "int" || f.Type.Name == "long" || f.Type.Name == "string" || f.Type.Name == "float" || f.Type.Name == "double") {
				sized = true
			}
		}
	}
	return out, sized
}

func (g *gen) freeBit(used map[int]bool) int {
	for {
		b := rapid.SampledFrom([]int{0, 1, 2, 3, 4, 5, 7, 8, 15, 16, 30, 31}).Draw(g.rt, "bit")
		if !used[b] || len(used) > 10 {
			used[b] = true
			return b
		}
	}
}

func (g *gen) maybeTag(c *Comb) {
	if g.o.ExplicitTags && g.p("explicit", 30) {
		t := rapid.Uint32Range(1, 0xfffffffe).Draw(g.rt, "tag")
		for g.tags[t] || t == 0 || t == 0xffffffff { // explicit tags are unique and never 0 (both generators reject 0)
			t = t*2654435761 + 12345
		}
		g.tags[t] = true
		c.Tag = &t
	}
}

func (g *gen) genStruct() {
	ctor, typ := g.freshName(g.pick("base", "item", "rec", "node", "msg", "point"))
	sc := &scope{used: map[string]bool{}}
	c := &Comb{Name: ctor, ResultType: typ}
	fields, sized := g.genFields(sc, 0, 9)
	c.Fields = fields
	g.maybeTag(c)
	g.s.Combs = append(g.s.Combs, c)
	g.types = append(g.types, userType{TypeName: typ, Ctors: []string{ctor}, Sized: sized})
}

func (g *gen) genTemplate() {
	ctor, typ := g.freshName(g.pick("base", "box", "wrap", "ext"))
	sc := &scope{used: map[string]bool{}}
	c := &Comb{Name: ctor, ResultType: typ}
	switch g.n("tkind", 0, 2) {
	case 0:
		c.Params = []Param{{Name: "T", IsNat: false}}
		sc.tparams = []string{"T"}
	case 1:
		c.Params = []Param{{Name: "m", IsNat: true}}
		sc.masks = []string{"m"}
	default:
		c.Params = []Param{{Name: "n", IsNat: true}, {Name: "T", IsNat: false}}
		sc.sizes = []string{"n"}
		sc.tparams = []string{"T"}
	}
	sc.used["T"], sc.used["m"], sc.used["n"] = true, true, true
	c.Fields, _ = g.genFields(sc, 1, 5)
	// every parameter must be used at least once
	for _, p := range c.Params {
		switch {
		case !p.IsNat:
			c.Fields = append(c.Fields, Field{Name: g.fieldName(sc), Type: TypeExpr{Kind: "tparam", Name: p.Name}})
		case p.Name == "m":
			c.Fields = append(c.Fields, Field{Name: g.fieldName(sc), Mask: &MaskRef{Src: "m", Bit: 6}, Type: TypeExpr{Kind: "ref", Name: "int"}})
		default:
			c.Fields = append(c.Fields, Field{Name: g.fieldName(sc), Type: TypeExpr{Kind: "brackets", Scale: &NatExpr{Kind: "field", Name: p.Name}, Rep: []Field{{Type: TypeExpr{Kind: "ref", Name: "int"}}}}})
		}
	}
	for _, p := range c.Params {
		c.ResultArgs = append(c.ResultArgs, p.Name)
	}
	g.maybeTag(c)
	g.s.Combs = append(g.s.Combs, c)
	g.types = append(g.types, userType{TypeName: typ, Ctors: []string{ctor}, Params: c.Params})
}

func (g *gen) genUnion() {
	_, typ := g.freshName(g.pick("base", "shape", "event", "value"))
	k := g.n("variants", 2, 4)
	u := userType{TypeName: typ, Sized: true}
	short := typ
	ns := ""
	for i := len(typ) - 1; i >= 0; i-- {
		if typ[i] == '.' {
			ns, short = typ[:i+1], typ[i+1:]
			break
		}
	}
	lower := string(short[0]-'A'+'a') + short[1:]
	enum := g.p("enum", 30)
	for i := 0; i < k; i++ {
		ctor := fmt.Sprintf("%s%s%s", ns, lower, []string{"One", "Two", "Three", "Four"}[i])
		g.names[ctor] = true
		c := &Comb{Name: ctor, ResultType: typ}
		if !enum {
			sc := &scope{used: map[string]bool{}}
			c.Fields, _ = g.genFields(sc, 0, 4)
		}
		g.maybeTag(c)
		g.s.Combs = append(g.s.Combs, c)
		u.Ctors = append(u.Ctors, ctor)
	}
	g.types = append(g.types, u)
}

func (g *gen) genFunction() {
	ctor, _ := g.freshName(g.pick("base", "get", "set", "call", "list"))
	sc := &scope{used: map[string]bool{}}
	c := &Comb{Name: ctor, IsFunc: true}
	c.Fields, _ = g.genFields(sc, 0, 5)
	c.Ann = []string{g.pick("ann", "read", "write", "readwrite", "any", "kphp", "internal")}
	if g.p("ann2", 25) {
		second := g.pick("ann2name", "any", "kphp", "internal")
		if second != c.Ann[0] {
			c.Ann = append(c.Ann, second)
		}
	}
	// result: boxed
	var res TypeExpr
	switch g.n("rkind", 0, 6) {
	case 0:
		res = TypeExpr{Kind: "ref", Name: g.pick("rprim", "Int", "Long", "String", "Bool", "True")}
	case 1:
		inner := g.genType(sc, 1, false)
		res = TypeExpr{Kind: "ref", Name: "Vector", Args: []Arg{{Type: &inner}}}
	case 2:
		inner := g.genType(sc, 1, false)
		res = TypeExpr{Kind: "ref", Name: "Maybe", Args: []Arg{{Type: &inner}}}
	case 3:
		inner := g.genType(sc, 1, false)
		var n *NatExpr
		if len(sc.sizes) > 0 {
			n = &NatExpr{Kind: "field", Name: sc.sizes[0]}
		} else {
			n = g.constNat(0, 3)
		}
		res = TypeExpr{Kind: "ref", Name: "Tuple", Args: []Arg{{Type: &inner}, {Nat: n}}}
	default:
		var cands []userType
		for _, u := range g.types {
			if len(u.Params) == 0 {
				cands = append(cands, u)
			}
		}
		if len(cands) == 0 {
			res = TypeExpr{Kind: "ref", Name: "Int"}
		} else {
			res = TypeExpr{Kind: "ref", Name: cands[g.n("rtype", 0, len(cands)-1)].TypeName}
		}
	}
	c.FuncResult = &res
	g.maybeTag(c)
	g.s.Combs = append(g.s.Combs, c)
}

// Generate draws a schema (user combinators only; Prelude is prepended by Text).
func Generate(rt *rapid.T, o GenOpts) *Schema {
	g := &gen{rt: rt, o: o, s: &Schema{}, names: map[string]bool{}, tags: map[uint32]bool{}}
	n := g.n("ncombs", o.MinCombs, o.MaxCombs)
	for len(g.s.Combs) < n {
		switch r := g.n("kind", 0, 9); {
		case r <= 4:
			g.genStruct()
		case r <= 6:
			g.genUnion()
		case r == 7 && o.Templates:
			g.genTemplate()
		default:
			g.genStruct()
		}
	}
	if o.Recursion && g.p("recursion", 50) {
		g.addRecursion()
	}
	// declaration order is free in TL: interleave the constructors of different types
	if g.p("shuffle", 40) {
		perm := rapid.Permutation(g.s.Combs).Draw(g.rt, "order")
		g.s.Combs = perm
	}
	if o.Functions {
		k := g.n("nfuncs", 1, 6)
		for i := 0; i < k; i++ {
			g.genFunction()
		}
	}
	if o.MaskForward && o.Functions && g.p("maskforward", 60) {
		g.addMaskForward()
	}
	return g.s
}

// addMaskForward appends a template with a type and a mask parameter, a holder that instantiates it for several
// element types under one mask parameter, and a function whose # argument is forwarded to the holder it returns.
func (g *gen) addMaskForward() {
	boxC, boxT := g.freshName("mbox")
	holdC, holdT := g.freshName("mhold")
	fn, _ := g.freshName("getBoxes")
	tp := TypeExpr{Kind: "tparam", Name: "T"}
	box := &Comb{Name: boxC, ResultType: boxT, Params: []Param{{Name: "T"}, {Name: "m", IsNat: true}}, ResultArgs: []string{"T", "m"}}
	box.Fields = []Field{{Name: "id", Type: TypeExpr{Kind: "ref", Name: "int"}},
		{Name: "value", Mask: &MaskRef{Src: "m", Bit: g.n("fwdbit", 0, 3)}, Type: tp},
		{Name: "extra", Mask: &MaskRef{Src: "m", Bit: 4 + g.n("fwdbit2", 0, 3)}, Type: TypeExpr{Kind: "ref", Name: "string"}}}
	hold := &Comb{Name: holdC, ResultType: holdT, Params: []Param{{Name: "m", IsNat: true}}, ResultArgs: []string{"m"}}
	elems := []string{"int", "long", "string", "double", "float"}
	k := g.n("fwdinst", 2, 4)
	off := g.n("fwdoff", 0, len(elems)-1)
	for i := 0; i < k; i++ {
		el := TypeExpr{Kind: "ref", Name: elems[(off+i)%len(elems)]}
		t := TypeExpr{Kind: "ref", Name: boxC, Args: []Arg{{Type: &el}, {Nat: &NatExpr{Kind: "field", Name: "m"}}}}
		if g.p("fwdvec", 25) {
			inner := t
			t = TypeExpr{Kind: "ref", Name: "vector", Args: []Arg{{Type: &inner}}}
		}
		hold.Fields = append(hold.Fields, Field{Name: fmt.Sprintf("b%d", i), Type: t})
	}
	res := TypeExpr{Kind: "ref", Name: holdT, Args: []Arg{{Nat: &NatExpr{Kind: "field", Name: "fields_mask"}}}}
	f := &Comb{Name: fn, IsFunc: true, Ann: []string{"read"}, FuncResult: &res,
		Fields: []Field{{Name: "fields_mask", Type: TypeExpr{Kind: "prim", Name: "#"}}}}
	g.s.Combs = append(g.s.Combs, box, hold, f)
}

// addRecursion appends a well-founded recursive field (through Maybe / vector / a masked field) to some struct.
func (g *gen) addRecursion() {
	var cands []*Comb
	for _, c := range g.s.Combs {
		if !c.IsFunc && len(c.Params) == 0 {
			cands = append(cands, c)
		}
	}
	if len(cands) == 0 {
		return
	}
	c := cands[g.n("rec", 0, len(cands)-1)]
	self := TypeExpr{Kind: "ref", Name: c.ResultType}
	wrap := g.pick("recwrap", "Maybe", "vector", "dictionary", "maskedtuple")
	id := g.n("recid", 0, 99)
	f := Field{Name: fmt.Sprintf("rec%d", id), Type: TypeExpr{Kind: "ref", Name: wrap, Args: []Arg{{Type: &self}}}}
	mask := Field{Name: fmt.Sprintf("recmask%d", id), Type: TypeExpr{Kind: "prim", Name: "#"}}
	for _, x := range c.Fields {
		if x.Name == f.Name || x.Name == mask.Name {
			return
		}
	}
	if wrap == "maskedtuple" {
		// a constant-size tuple of the type itself is finite only under a mask of its own
		f.Type = TypeExpr{Kind: "ref", Name: "tuple", Args: []Arg{{Type: &self}, {Nat: &NatExpr{Kind: "const", Const: uint32(g.n("recsize", 1, 3))}}}}
		f.Mask = &MaskRef{Src: mask.Name, Bit: g.n("recbit", 0, 5)}
		c.Fields = append(c.Fields, mask)
	}
	c.Fields = append(c.Fields, f)
}
