package schemagen

import (
	"hash/crc32"
	"os"
	"path/filepath"
	"testing"

	"github.com/VKCOM/tl/internal/tlast"
)

// TestReferenceCanonicalOnRepository validates the reference canonical form against every implicit tag of the
// repository's schemas and the documented constants (development-time validation of the oracle itself).
func TestReferenceCanonicalOnRepository(t *testing.T) {
	var files []string
	filepath.Walk("/repo", func(p string, info os.FileInfo, err error) error {
		if err == nil && !info.IsDir() && filepath.Ext(p) == ".tl" {
			files = append(files, p)
		}
		return nil
	})
	n, bad := 0, 0
	for _, f := range files {
		b, _ := os.ReadFile(f)
		tl, err := tlast.ParseTLFile(string(b), f, tlast.LexerOptions{LexerLanguage: tlast.TL1, AllowDirty: true})
		if err != nil {
			continue
		}
		for _, c := range tl.Combinators() {
			m := FromTlast(c)
			m.Tag = nil
			n++
			if got, want := crc32.ChecksumIEEE([]byte(m.Canonical())), c.GenCrc32(); got != want {
				bad++
				if bad < 8 {
					t.Errorf("%s: reference canonical %q gives %08x, tlast gives %08x (%s)", f, m.Canonical(), got, want, c.String())
				}
			}
		}
	}
	t.Logf("%d combinators, %d mismatches", n, bad)
	for text, want := range map[string]uint32{"int ? = Int": 0xa8509bda, "long ? = Long": 0x22076cba, "string ? = String": 0xb5286e24, "vector t:Type # [ t ] = Vector t": 0x1cb5c415,
		"tuple t:Type n:# [ t ] = Tuple t n": 0x9770768a, "true = True": 0x3fedd339, "boolFalse = Bool": 0xbc799737, "boolTrue = Bool": 0x997275b5, "point x:int y:int = Point": 0xe3fe70f4} {
		if got := crc32.ChecksumIEEE([]byte(text)); got != want {
			t.Errorf("documented constant %q: %08x, expected %08x", text, got, want)
		}
	}
}
