package schemagen

import (
	"strings"
	"os"
	"os/exec"
	"testing"

	"github.com/VKCOM/tl/internal/tlast"
	"pgregory.net/rapid"
)

// development aid: how many generated schemas parse / are accepted by tl2gen (VERIF_TL2GEN=path enables the second part)
func TestGeneratorAcceptance(t *testing.T) {
	parsed, accepted, total := 0, 0, 0
	tl2gen := os.Getenv("VERIF_TL2GEN")
	var firstErr string
	reasons := map[string]int{}
	rapid.Check(t, func(rt *rapid.T) {
		s := Generate(rt, DefaultOpts())
		text := s.Text(Layout{Seed: rapid.Uint64().Draw(rt, "layout"), Level: 1})
		total++
		if _, err := tlast.ParseTLFile(text, "gen.tl", tlast.LexerOptions{LexerLanguage: tlast.TL1}); err != nil {
			rt.Fatalf("generated schema does not parse: %v\n%s", err, text)
		}
		parsed++
		if tl2gen != "" {
			f := t.TempDir() + "/s.tl"
			os.WriteFile(f, []byte(text), 0o644)
			out, err := exec.Command(tl2gen, "--language=lint", f).CombinedOutput()
			if err == nil {
				accepted++
			} else {
				reasons[reason(string(out))]++
				if firstErr == "" {
					firstErr = string(out) + "\n" + text
				}
			}
		}
	})
	t.Logf("total %d parsed %d accepted %d", total, parsed, accepted)
	for r, n := range reasons {
		t.Logf("%4d %s", n, r)
	}
	if firstErr != "" {
		t.Logf("first rejection:\n%s", firstErr)
	}
}

func reason(out string) string {
	best := ""
	for _, l := range strings.Split(out, "\n") {
		if i := strings.Index(l, "--\x1b[0m "); i >= 0 {
			r := l[i+7:]
			if j := strings.Index(r, " /tmp"); j >= 0 {
				r = r[:j]
			}
			best = r
		}
	}
	return best
}
