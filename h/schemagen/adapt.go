package schemagen

import (
	"github.com/VKCOM/tl/internal/tlast"
)

// FromTlast converts a parsed combinator into the harness model: positions and comments are dropped, everything the
// language gives meaning to is kept. It is the normal form used to compare two parses (C21, C25) and the bridge that
// lets the reference canonical form be validated on the repository's schemas.

func natFromScale(sf tlast.ScaleFactor) *NatExpr {
	if sf.IsArith {
		return &NatExpr{Kind: "const", Const: sf.Arith.Res, Sum: sumOf(sf.Arith)}
	}
	return &NatExpr{Kind: "field", Name: sf.Scale}
}

func sumOf(a tlast.Arithmetic) []uint32 {
	if len(a.Nums) > 1 {
		return append([]uint32{}, a.Nums...)
	}
	return nil
}

func typeFromRef(t tlast.TypeRef) TypeExpr {
	out := TypeExpr{Kind: "ref", Name: t.Type.String(), Bare: t.Bare}
	for _, a := range t.Args {
		if a.IsArith {
			out.Args = append(out.Args, Arg{Nat: &NatExpr{Kind: "const", Const: a.Arith.Res, Sum: sumOf(a.Arith)}})
		} else {
			x := typeFromRef(a.T)
			out.Args = append(out.Args, Arg{Type: &x})
		}
	}
	return out
}

func fieldFrom(f tlast.Field) Field {
	out := Field{Name: f.FieldName, Excl: f.Excl}
	if f.Mask != nil {
		out.Mask = &MaskRef{Src: f.Mask.MaskName, Bit: int(f.Mask.BitNumber)}
	}
	if f.IsRepeated {
		out.Type = TypeExpr{Kind: "brackets"}
		if f.ScaleRepeat.ExplicitScale {
			out.Type.Scale = natFromScale(f.ScaleRepeat.Scale)
		}
		for _, r := range f.ScaleRepeat.Rep {
			out.Type.Rep = append(out.Type.Rep, fieldFrom(r))
		}
		return out
	}
	out.Type = typeFromRef(f.FieldType)
	return out
}

func FromTlast(c *tlast.Combinator) *Comb {
	out := &Comb{Name: c.Construct.Name.String(), IsFunc: c.IsFunction}
	if c.Construct.IDExplicit {
		id := c.Construct.ID
		out.Tag = &id
	}
	for _, m := range c.Modifiers {
		out.Ann = append(out.Ann, m.Name)
	}
	for _, p := range c.TemplateArguments {
		out.Params = append(out.Params, Param{Name: p.FieldName, IsNat: p.IsNat})
	}
	if c.Builtin {
		out.Fields = []Field{{Type: TypeExpr{Kind: "prim", Name: "?"}}}
	}
	for _, f := range c.Fields {
		out.Fields = append(out.Fields, fieldFrom(f))
	}
	if c.IsFunction {
		t := typeFromRef(c.FuncDecl)
		out.FuncResult = &t
	} else {
		out.ResultType = c.TypeDecl.Name.String()
		out.ResultArgs = append(out.ResultArgs, c.TypeDecl.Arguments...)
	}
	return out
}
