package schemagen

import (
	"fmt"
	"strings"
)

// Layout drives the meaning-preserving (and implicit-tag-preserving) variation of the printed text: whitespace,
// comments, line breaks, "T<a,b>" instead of "(T a b)", redundant parentheses around arithmetic. Deterministic in Seed.
type Layout struct {
	Seed  uint64 `json:"seed"`
	Level int    `json:"level"` // 0 = plain one-line spelling
}

type lrand struct{ s uint64 }

func (r *lrand) next() uint64 {
	r.s += 0x9E3779B97F4A7C15
	z := r.s
	z = (z ^ (z >> 30)) * 0xBF58476D1CE4E5B9
	z = (z ^ (z >> 27)) * 0x94D049BB133111EB
	return z ^ (z >> 31)
}
func (r *lrand) p(percent uint64) bool { return r.next()%100 < percent }

type printer struct {
	r  *lrand
	lv int
}

func (p *printer) sp() string {
	if p.lv == 0 {
		return " "
	}
	switch p.r.next() % 10 {
	case 0:
		return "  "
	case 1:
		return "\t"
	case 2:
		return "\n    "
	case 3:
		return " // c\n  "
	}
	return " "
}

func (p *printer) nat(n *NatExpr) string {
	if n.Kind != "const" {
		return n.Name
	}
	if len(n.Sum) > 1 {
		parts := []string{}
		for _, x := range n.Sum {
			parts = append(parts, fmt.Sprint(x))
		}
		sep := "+"
		if p.lv > 0 && p.r.p(50) {
			sep = " + "
		}
		return "(" + strings.Join(parts, sep) + ")"
	}
	if p.lv > 0 && p.r.p(15) {
		return "(" + fmt.Sprint(n.Const) + ")"
	}
	return fmt.Sprint(n.Const)
}

func (p *printer) typ(t *TypeExpr, top bool) string {
	switch t.Kind {
	case "prim", "tparam":
		if t.Bare {
			return "%" + t.Name
		}
		return t.Name
	case "brackets":
		s := ""
		if t.Scale != nil {
			s = p.nat(t.Scale) + "*"
		}
		inner := []string{}
		for i := range t.Rep {
			inner = append(inner, p.field(&t.Rep[i]))
		}
		if p.lv > 0 && p.r.p(40) {
			return s + "[ " + strings.Join(inner, " ") + " ]"
		}
		return s + "[" + strings.Join(inner, " ") + "]"
	}
	pre := ""
	if t.Bare {
		pre = "%"
	}
	if len(t.Args) == 0 {
		return pre + t.Name
	}
	var args []string
	for i := range t.Args {
		if t.Args[i].Nat != nil {
			args = append(args, p.nat(t.Args[i].Nat))
		} else {
			args = append(args, p.typ(t.Args[i].Type, false))
		}
	}
	if p.lv > 0 && p.r.p(35) { // angle-bracket syntax
		sep := ","
		if p.r.p(50) {
			sep = ", "
		}
		return pre + t.Name + "<" + strings.Join(args, sep) + ">"
	}
	return pre + "(" + t.Name + " " + strings.Join(args, " ") + ")"
}

func (p *printer) field(f *Field) string {
	s := ""
	if f.Name != "" {
		s = f.Name + ":"
	}
	if f.Mask != nil {
		s += fmt.Sprintf("%s.%d?", f.Mask.Src, f.Mask.Bit)
	}
	if f.Excl {
		s += "!"
	}
	return s + p.typ(&f.Type, false)
}

func (p *printer) comb(c *Comb) string {
	var sb strings.Builder
	for _, a := range c.Ann {
		sb.WriteString("@" + a + p.sp())
	}
	sb.WriteString(c.Name)
	if c.Tag != nil {
		fmt.Fprintf(&sb, "#%08x", *c.Tag)
	}
	for _, q := range c.Params {
		k := "Type"
		if q.IsNat {
			k = "#"
		}
		sb.WriteString(p.sp() + "{" + q.Name + ":" + k + "}")
	}
	if c.builtin() {
		sb.WriteString(" ?")
	} else {
		for i := range c.Fields {
			sb.WriteString(p.sp() + p.field(&c.Fields[i]))
		}
	}
	sb.WriteString(p.sp() + "=" + p.sp())
	if c.IsFunc {
		t := p.typ(c.FuncResult, true)
		// the result of a function is written without the outer parentheses
		if strings.HasPrefix(t, "(") && strings.HasSuffix(t, ")") {
			t = t[1 : len(t)-1]
		} else if strings.HasPrefix(t, "%(") && strings.HasSuffix(t, ")") { // a bare result: = %Vector int
			t = "%" + t[2:len(t)-1]
		}
		sb.WriteString(t)
	} else {
		sb.WriteString(c.ResultType)
		for _, a := range c.ResultArgs {
			sb.WriteString(" " + a)
		}
	}
	if p.lv > 0 && p.r.p(20) {
		sb.WriteString(" ")
	}
	sb.WriteString(";")
	return sb.String()
}

// Line prints one combinator under the layout.
func (c *Comb) Line(l Layout) string {
	p := &printer{r: &lrand{s: l.Seed}, lv: l.Level}
	return p.comb(c)
}

// Text prints the whole schema: prelude, types, then functions.
func (s *Schema) Text(l Layout) string {
	p := &printer{r: &lrand{s: l.Seed}, lv: l.Level}
	var sb strings.Builder
	sb.WriteString(Prelude)
	inFuncs := false
	for _, c := range s.Combs {
		if c.IsFunc && !inFuncs {
			sb.WriteString("---functions---\n")
			inFuncs = true
		}
		if !c.IsFunc && inFuncs {
			sb.WriteString("---types---\n")
			inFuncs = false
		}
		if p.lv > 0 && p.r.p(20) {
			sb.WriteString("// comment before " + c.Name + "\n")
		}
		sb.WriteString(p.comb(c))
		sb.WriteString("\n")
		if p.lv > 0 && p.r.p(15) {
			sb.WriteString("\n")
		}
	}
	return sb.String()
}
