// Package schemagen is the harness' own model of TL1 schemas (independent of internal/tlast): a random generator that
// constructs schemas valid by construction, printers with randomised but meaning-preserving layout, and the reference
// canonical form used for implicit CRC32 tags.
package schemagen

import (
	"fmt"
	"hash/crc32"
	"strings"
)

type NatExpr struct {
	Kind  string `json:"k"` // const param field
	Const uint32 `json:"c,omitempty"`
	Name  string `json:"n,omitempty"`
	// arithmetic spelling of a constant: the summands (layout only; canonical form uses the sum)
	Sum []uint32 `json:"sum,omitempty"`
}

type Arg struct {
	Nat  *NatExpr  `json:"nat,omitempty"`
	Type *TypeExpr `json:"type,omitempty"`
}

type TypeExpr struct {
	Kind  string    `json:"k"`              // prim ref tparam brackets
	Name  string    `json:"n,omitempty"`    // prim: # int long float double string; ref: constructor or Type name; tparam: parameter
	Bare  bool      `json:"bare,omitempty"` // ref written through its constructor name (lower case) or %Type
	Pct   bool      `json:"pct,omitempty"`  // bare spelled %Type instead of constructor name
	Args  []Arg     `json:"args,omitempty"`
	Scale *NatExpr  `json:"scale,omitempty"` // brackets: explicit repetition count
	Rep   []Field   `json:"rep,omitempty"`   // brackets: the repeated fields (normally one unnamed type)
}

type MaskRef struct {
	Src string `json:"src"` // name of a # field or # parameter
	Bit int    `json:"bit"`
}

type Field struct {
	Name string   `json:"name,omitempty"`
	Mask *MaskRef `json:"mask,omitempty"`
	Excl bool     `json:"excl,omitempty"`
	Type TypeExpr `json:"type"`
}

type Param struct {
	Name  string `json:"name"`
	IsNat bool   `json:"nat"`
}

type Comb struct {
	Name       string    `json:"name"` // full constructor name, e.g. a.point
	Tag        *uint32   `json:"tag,omitempty"`
	Ann        []string  `json:"ann,omitempty"` // without '@'
	Params     []Param   `json:"params,omitempty"`
	Fields     []Field   `json:"fields,omitempty"`
	ResultType string    `json:"result_type,omitempty"` // type declaration name (constructors)
	ResultArgs []string  `json:"result_args,omitempty"` // arguments of the type declaration (normally the parameter names)
	IsFunc     bool      `json:"func,omitempty"`
	FuncResult *TypeExpr `json:"func_result,omitempty"`
}

type Schema struct {
	Combs []*Comb `json:"combs"`
}

// Prelude is the fixed set of builtin wrappers and containers every generated schema starts with
// (the shapes the repository's schemas use).
const Prelude = `int#a8509bda ? = Int;
long#22076cba ? = Long;
float#824dab22 ? = Float;
double#2210c154 ? = Double;
string#b5286e24 ? = String;
boolFalse#bc799737 = Bool;
boolTrue#997275b5 = Bool;
true = True;
vector#1cb5c415 {t:Type} # [t] = Vector t;
tuple#9770768a {t:Type} {n:#} [t] = Tuple t n;
dictionaryField {t:Type} key:string value:t = DictionaryField t;
dictionary#1f4c618f {t:Type} %(Vector %(DictionaryField t)) = Dictionary t;
dictionaryAnyField {k:Type} {v:Type} key:k value:v = DictionaryAnyField k v;
dictionaryAny#1f4c6190 {k:Type} {v:Type} # [(dictionaryAnyField k v)] = DictionaryAny k v;
resultFalse#27930a7b {t:Type} = Maybe t;
resultTrue#3f9c8ef8 {t:Type} t = Maybe t;
pair {X:Type} {Y:Type} x:X y:Y = Pair X Y;
`

// ---- canonical form (reference for implicit tags) ---------------------------------------------
//
// One line; braces of template parameters dropped; tokens separated by single spaces; a type application is written
// without parentheses ("vector pair int int"); arithmetic is replaced by its value; a bare reference keeps the '%'
// marker only when the name starts with an upper-case letter; "[ ... ]" is separated from its content by spaces and
// its content is printed in ordinary syntax (parentheses kept, arithmetic unfolded); "n*[ t ]".

func (n NatExpr) canon() string {
	if n.Kind == "const" {
		return fmt.Sprint(n.Const)
	}
	return n.Name
}

func (n NatExpr) plain() string {
	if n.Kind == "const" {
		if len(n.Sum) > 1 {
			parts := []string{}
			for _, x := range n.Sum {
				parts = append(parts, fmt.Sprint(x))
			}
			return strings.Join(parts, " + ")
		}
		return fmt.Sprint(n.Const)
	}
	return n.Name
}

func upperFirst(name string) bool {
	if i := strings.LastIndex(name, "."); i >= 0 {
		name = name[i+1:]
	}
	return name != "" && name[0] >= 'A' && name[0] <= 'Z'
}

func (t TypeExpr) canon() string {
	switch t.Kind {
	case "prim", "tparam":
		if t.Bare && upperFirst(t.Name) {
			return "%" + t.Name
		}
		return t.Name
	case "brackets":
		s := ""
		if t.Scale != nil {
			s = t.Scale.canon() + "*"
		}
		s += "["
		for _, f := range t.Rep {
			s += " "
			if f.Type.Kind == "brackets" {
				if f.Name != "" {
					s += f.Name + ":"
				}
				s += f.Type.canon()
			} else {
				s += f.Plain()
			}
		}
		return s + " ]"
	}
	name := t.Name
	if t.Bare && upperFirst(t.Name) {
		name = "%" + name
	}
	parts := []string{name}
	for _, a := range t.Args {
		if a.Nat != nil {
			parts = append(parts, a.Nat.canon())
		} else {
			parts = append(parts, a.Type.canon())
		}
	}
	return strings.Join(parts, " ")
}

// Plain is the ordinary one-line spelling (as the repository's printer writes it).
func (t TypeExpr) Plain(top bool) string {
	switch t.Kind {
	case "prim", "tparam":
		if t.Bare {
			return "%" + t.Name
		}
		return t.Name
	case "brackets":
		s := ""
		if t.Scale != nil {
			if t.Scale.Kind == "const" {
				s = "(" + t.Scale.plain() + ")*"
			} else {
				s = t.Scale.Name + "*"
			}
		}
		s += "["
		for i, f := range t.Rep {
			if i > 0 {
				s += " "
			}
			s += f.Plain()
		}
		return s + "]"
	}
	pre := ""
	if t.Bare {
		pre = "%"
	}
	if len(t.Args) == 0 {
		return pre + t.Name
	}
	parts := []string{t.Name}
	for _, a := range t.Args {
		if a.Nat != nil {
			parts = append(parts, a.Nat.plain())
		} else {
			parts = append(parts, a.Type.Plain(false))
		}
	}
	if top {
		return pre + strings.Join(parts, " ")
	}
	return pre + "(" + strings.Join(parts, " ") + ")"
}

func (f Field) Plain() string {
	s := ""
	if f.Name != "" {
		s = f.Name + ":"
	}
	if f.Mask != nil {
		s += fmt.Sprintf("%s.%d?", f.Mask.Src, f.Mask.Bit)
	}
	if f.Excl {
		s += "!"
	}
	return s + f.Type.Plain(false)
}

func (f Field) canon() string {
	s := ""
	if f.Name != "" {
		s = f.Name + ":"
	}
	if f.Mask != nil {
		s += fmt.Sprintf("%s.%d?", f.Mask.Src, f.Mask.Bit)
	}
	return s + f.Type.canon()
}

// Builtin combinators ("int ? = Int") are spelled with a literal '?' field.
func (c *Comb) builtin() bool {
	return len(c.Fields) == 1 && c.Fields[0].Type.Kind == "prim" && c.Fields[0].Type.Name == "?" && c.Fields[0].Name == ""
}

// Canonical returns the one-line canonical form whose CRC32 (IEEE) is the implicit tag.
func (c *Comb) Canonical() string {
	parts := []string{c.Name}
	for _, p := range c.Params {
		k := "Type"
		if p.IsNat {
			k = "#"
		}
		parts = append(parts, p.Name+":"+k)
	}
	for _, f := range c.Fields {
		parts = append(parts, f.canon())
	}
	parts = append(parts, "=")
	if c.IsFunc {
		parts = append(parts, c.FuncResult.canon())
	} else {
		parts = append(parts, c.ResultType)
		for _, a := range c.ResultArgs {
			parts = append(parts, a)
		}
	}
	return strings.Join(parts, " ")
}

// EffectiveTag is the explicit tag or the CRC32 of the canonical form.
func (c *Comb) EffectiveTag() uint32 {
	if c.Tag != nil {
		return *c.Tag
	}
	return crc32.ChecksumIEEE([]byte(c.Canonical()))
}

// PlainLine is the ordinary one-line spelling of the combinator (with ';').
func (c *Comb) PlainLine() string {
	var parts []string
	for _, a := range c.Ann {
		parts = append(parts, "@"+a)
	}
	name := c.Name
	if c.Tag != nil {
		name += fmt.Sprintf("#%08x", *c.Tag)
	}
	parts = append(parts, name)
	for _, p := range c.Params {
		k := "Type"
		if p.IsNat {
			k = "#"
		}
		parts = append(parts, "{"+p.Name+":"+k+"}")
	}
	for _, f := range c.Fields {
		if c.builtin() {
			parts = append(parts, "?")
			break
		}
		parts = append(parts, f.Plain())
	}
	parts = append(parts, "=")
	if c.IsFunc {
		parts = append(parts, c.FuncResult.Plain(true))
	} else {
		parts = append(parts, c.ResultType)
		parts = append(parts, c.ResultArgs...)
	}
	return strings.Join(parts, " ") + ";"
}
