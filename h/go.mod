module github.com/VKCOM/tl/verifh

go 1.24.0

require (
	github.com/VKCOM/tl v0.0.0
	pgregory.net/rapid v1.3.0
)

require (
	github.com/TwiN/go-color v1.4.1 // indirect
	github.com/go-faster/xor v0.3.0 // indirect
	github.com/gotd/ige v0.2.2 // indirect
	github.com/josharian/intern v1.0.0 // indirect
	github.com/mailru/easyjson v0.7.8-0.20240109111231-141f9c7d7ffe // indirect
	github.com/valyala/bytebufferpool v1.0.0 // indirect
	github.com/valyala/quicktemplate v1.7.0 // indirect
	golang.org/x/exp v0.0.0-20240604190554-fc45aab8b7f8 // indirect
)

replace github.com/VKCOM/tl => /repo
