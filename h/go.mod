module github.com/VKCOM/tl/verifh

go 1.24.0

require (
	github.com/VKCOM/tl v0.0.0
	pgregory.net/rapid v1.3.0
)

require (
	github.com/TwiN/go-color v1.4.1 // indirect
	github.com/dchest/siphash v1.2.3 // indirect
	github.com/dgryski/go-maglev v0.0.0-20200611225407-8961b9b1b8e6 // indirect
	github.com/go-faster/xor v0.3.0 // indirect
	github.com/google/btree v1.1.3 // indirect
	github.com/google/go-cmp v0.7.0 // indirect
	github.com/gotd/ige v0.2.2 // indirect
	github.com/josharian/intern v1.0.0 // indirect
	github.com/mailru/easyjson v0.7.8-0.20240109111231-141f9c7d7ffe // indirect
	github.com/valyala/bytebufferpool v1.0.0 // indirect
	github.com/valyala/quicktemplate v1.7.0 // indirect
	golang.org/x/crypto v0.0.0-20210513164829-c07d793c2f9a // indirect
	golang.org/x/exp v0.0.0-20240604190554-fc45aab8b7f8 // indirect
	golang.org/x/sys v0.30.0 // indirect
	pgregory.net/rand v1.0.2 // indirect
)

replace github.com/VKCOM/tl => /repo
