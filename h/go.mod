module github.com/VKCOM/tl/verifh

go 1.24.0

require (
	github.com/VKCOM/tl v0.0.0
	pgregory.net/rapid v1.3.0
)

require (
	github.com/josharian/intern v1.0.0 // indirect
	github.com/mailru/easyjson v0.7.8-0.20240109111231-141f9c7d7ffe // indirect
)

replace github.com/VKCOM/tl => /repo
