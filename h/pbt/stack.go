package pbt

import "strings"

// shortStack keeps the frames of the code under test (drops the recover/pbt/rapid/testing frames) and bounds the size.
func shortStack(b []byte) string {
	lines := strings.Split(string(b), "\n")
	var out []string
	skip := true
	for i := 0; i+1 < len(lines); i++ {
		l := lines[i]
		if strings.HasPrefix(l, "panic(") { // frames after the panic() call belong to the panicking code
			skip = false
			i++
			continue
		}
		if skip {
			continue
		}
		if strings.Contains(l, "verifh/pbt.") || strings.Contains(l, "pgregory.net/rapid") || strings.HasPrefix(l, "testing.") {
			break
		}
		out = append(out, l)
		if len(out) >= 16 {
			break
		}
	}
	s := strings.Join(out, "\n")
	if len(s) > 1500 {
		s = s[:1500] + "..."
	}
	return s
}
