// Package pbt is the small layer every property check goes through: it drives
// rapid with a seed derived from VERIF_SEED, counts cases, classifies them,
// hashes the non-trivial ones, keeps samples, writes a replay file for the
// (shrunk) failing case, and can re-execute such a file without rapid.
package pbt

import (
	"encoding/binary"
	"encoding/json"
	"flag"
	"fmt"
	"hash/fnv"
	"os"
	"runtime/debug"
	"sort"
	"strconv"
	"sync"
	"testing"

	"pgregory.net/rapid"
)

// Result is what a single executed case reports.
type Result struct {
	NonTrivial bool     // case is non-trivial by the property's stated rule
	Classes    []string // generator-distribution labels (histogrammed)
	Excluded   string   // non-empty: case skipped because it falls into this known finding
	Err        error    // non-nil: property violated
}

func Fail(format string, a ...any) Result { return Result{Err: fmt.Errorf(format, a...)} }

// Inconclusive ends the process with exit code 3: an infrastructure problem (time budget, resource
// limit) that must never be reported as a violation.
func Inconclusive(format string, a ...any) {
	Flush()
	fmt.Printf("INCONCLUSIVE-IN-CHILD: "+format+"\n", a...)
	os.Exit(3)
}

// Replay is the self-contained file written for a failing case.
type Replay struct {
	Property string          `json:"property"`
	Test     string          `json:"test"`
	Context  json.RawMessage `json:"context,omitempty"` // e.g. schema + generator options (set by gen harness)
	Case     json.RawMessage `json:"case"`
	Error    string          `json:"error,omitempty"`
}

type stats struct {
	mu          sync.Mutex
	Property    string            `json:"property"`
	Evaluations int64             `json:"evaluations"`
	NonTrivial  int64             `json:"nontrivial"`
	Classes     map[string]int64  `json:"classes"`
	Excluded    map[string]int64  `json:"excluded_known"`
	Samples     []json.RawMessage `json:"samples"`
	Info        map[string]any    `json:"info"`
	Exhaustive  map[string]bool   `json:"exhaustive"`
	Violations  int               `json:"violations"`
	hashes      map[uint64]struct{}
}

var st = &stats{Classes: map[string]int64{}, Excluded: map[string]int64{}, Info: map[string]any{}, Exhaustive: map[string]bool{}, hashes: map[uint64]struct{}{}}

// Context is attached to replay files (set by the generated-code harness).
var Context json.RawMessage

func envInt(name string, def int64) int64 {
	if v := os.Getenv(name); v != "" {
		if n, err := strconv.ParseInt(v, 10, 64); err == nil {
			return n
		}
	}
	return def
}

func Seed() int64   { return envInt("VERIF_SEED", 1) }
func Shard() int64  { return envInt("VERIF_SHARD", 0) }
func Shards() int64 { return max(1, envInt("VERIF_SHARDS", 1)) }
func Thorough() bool {
	return os.Getenv("VERIF_TIER") == "thorough"
}

// Scale returns quick or thorough depending on the tier, multiplied by VERIF_BUDGET (percent).
func Scale(quick, thorough int) int {
	n := quick
	if Thorough() {
		n = thorough
	}
	n = int(int64(n) * envInt("VERIF_BUDGET", 100) / 100)
	return max(1, n)
}

// PerShard splits a total case count over the shards.
func PerShard(total int) int {
	return max(1, (total+int(Shards())-1)/int(Shards()))
}

// DeriveSeed mixes VERIF_SEED, a label and the shard index into a non-zero seed.
func DeriveSeed(label string) uint64 {
	h := fnv.New64a()
	var b [16]byte
	binary.LittleEndian.PutUint64(b[:], uint64(Seed()))
	binary.LittleEndian.PutUint64(b[8:], uint64(Shard()))
	h.Write(b[:])
	h.Write([]byte(label))
	s := h.Sum64() & 0x7fffffffffffffff
	if s == 0 {
		s = 1
	}
	return s
}

func Hash(b []byte) uint64 {
	h := fnv.New64a()
	h.Write(b)
	return h.Sum64()
}

func Info(key string, v any) {
	st.mu.Lock()
	st.Info[key] = v
	st.mu.Unlock()
}

func InfoAdd(key string, n int64) {
	st.mu.Lock()
	cur, _ := st.Info[key].(int64)
	st.Info[key] = cur + n
	st.mu.Unlock()
}

func Exhaustive(key string) {
	st.mu.Lock()
	st.Exhaustive[key] = true
	st.mu.Unlock()
}

// Record accounts for one executed case (used directly by enumerating checks).
func Record(label string, c any, res Result) {
	st.mu.Lock()
	defer st.mu.Unlock()
	st.Evaluations++
	for _, cl := range res.Classes {
		st.Classes[cl]++
	}
	if res.Excluded != "" {
		st.Excluded[res.Excluded]++
		return
	}
	if res.NonTrivial {
		st.NonTrivial++
		var js []byte
		if r, ok := c.(json.RawMessage); ok {
			js = r
		} else {
			js, _ = json.Marshal(c)
		}
		hh := fnv.New64a()
		hh.Write([]byte(label))
		hh.Write(js)
		k := hh.Sum64()
		if _, ok := st.hashes[k]; !ok {
			st.hashes[k] = struct{}{}
			n := len(st.hashes)
			// keep samples at a few spread-out positions
			if len(st.Samples) < 4 && (n == 1 || n == 10 || n == 100 || n == 1000) && len(js) < 4096 {
				w, _ := json.Marshal(map[string]any{"test": label, "case": json.RawMessage(js)})
				st.Samples = append(st.Samples, w)
			}
		}
	}
}

// Flush writes the accumulated statistics (VERIF_STATS) and the hash sidecar.
func Flush() {
	path := os.Getenv("VERIF_STATS")
	if path == "" {
		return
	}
	st.mu.Lock()
	defer st.mu.Unlock()
	b, _ := json.Marshal(st)
	_ = os.WriteFile(path, b, 0o644)
	hs := make([]uint64, 0, len(st.hashes))
	for k := range st.hashes {
		hs = append(hs, k)
	}
	sort.Slice(hs, func(i, j int) bool { return hs[i] < hs[j] })
	buf := make([]byte, 8*len(hs))
	for i, k := range hs {
		binary.LittleEndian.PutUint64(buf[8*i:], k)
	}
	_ = os.WriteFile(path+".hashes", buf, 0o644)
}

var replayLabel string

func writeReplay(label string, c any, err error) {
	path := os.Getenv("VERIF_REPLAY_OUT")
	if path == "" {
		return
	}
	// the first failing test of a process owns the replay file (later shrink steps of the same test overwrite it)
	if replayLabel != "" && replayLabel != label {
		return
	}
	replayLabel = label
	js, _ := json.Marshal(c)
	r := Replay{Property: os.Getenv("VERIF_PROP"), Test: label, Context: Context, Case: js, Error: err.Error()}
	b, _ := json.MarshalIndent(r, "", " ")
	_ = os.WriteFile(path, b, 0o644)
}

func journal(label string, c any) {
	path := os.Getenv("VERIF_JOURNAL")
	if path == "" {
		return
	}
	js, _ := json.Marshal(c)
	r := Replay{Property: os.Getenv("VERIF_PROP"), Test: label, Context: Context, Case: js, Error: "process died while executing this case"}
	b, _ := json.Marshal(r)
	f, err := os.OpenFile(path, os.O_WRONLY|os.O_CREATE|os.O_TRUNC, 0o644)
	if err == nil {
		f.Write(b)
		f.Sync()
		f.Close()
	}
}

// Safe runs check and converts a panic into a violation.
func Safe[C any](check func(C) Result, c C) (res Result) {
	defer func() {
		if r := recover(); r != nil {
			res = Result{Err: fmt.Errorf("panic: %v\n%s", r, shortStack(debug.Stack()))}
		}
	}()
	return check(c)
}

// replayCase returns the case to replay if VERIF_REPLAY_IN names a file for this test label.
func replayCase(label string) (json.RawMessage, bool) {
	path := os.Getenv("VERIF_REPLAY_IN")
	if path == "" {
		return nil, false
	}
	b, err := os.ReadFile(path)
	if err != nil {
		panic(err)
	}
	var r Replay
	if err := json.Unmarshal(b, &r); err != nil {
		panic(err)
	}
	if r.Test != label {
		return nil, false
	}
	return r.Case, true
}

// Replaying says whether this process is in replay mode (tests other than the targeted one do nothing).
func Replaying() bool { return os.Getenv("VERIF_REPLAY_IN") != "" }

// Run is the standard entry: gen draws a JSON-serialisable case, check executes it.
// checks is the total number of cases for this tier (split over shards).
func Run[C any](t *testing.T, label string, checks int, gen func(*rapid.T) C, check func(C) Result) {
	t.Helper()
	defer Flush()
	if Replaying() {
		raw, ok := replayCase(label)
		if !ok {
			return
		}
		var c C
		if err := json.Unmarshal(raw, &c); err != nil {
			t.Fatalf("bad replay case: %v", err)
		}
		res := Safe(check, c)
		if res.Err != nil {
			t.Fatalf("REPLAY-FAIL %s: %v", label, res.Err)
		}
		fmt.Printf("REPLAY-PASS %s\n", label)
		return
	}
	_ = flag.Set("rapid.checks", strconv.Itoa(PerShard(checks)))
	_ = flag.Set("rapid.seed", strconv.FormatUint(DeriveSeed(label), 10))
	_ = flag.Set("rapid.nofailfile", "true")
	if os.Getenv("VERIF_SHRINKTIME") != "" {
		_ = flag.Set("rapid.shrinktime", os.Getenv("VERIF_SHRINKTIME"))
	} else {
		_ = flag.Set("rapid.shrinktime", "20s")
	}
	jr := os.Getenv("VERIF_JOURNAL") != ""
	rapid.Check(t, func(rt *rapid.T) {
		c := gen(rt)
		if jr {
			journal(label, c)
		}
		res := Safe(check, c)
		Record(label, c, res)
		if res.Err != nil {
			st.mu.Lock()
			st.Violations = 1
			st.mu.Unlock()
			writeReplay(label, c, res.Err)
			rt.Fatalf("%s: %v", label, res.Err)
		}
	})
}

// Enumerate runs check over an explicit finite list of cases (no rapid), with the same accounting.
func Enumerate[C any](t *testing.T, label string, cases func(yield func(C) bool), check func(C) Result) {
	t.Helper()
	defer Flush()
	if Replaying() {
		raw, ok := replayCase(label)
		if !ok {
			return
		}
		var c C
		if err := json.Unmarshal(raw, &c); err != nil {
			t.Fatalf("bad replay case: %v", err)
		}
		if res := Safe(check, c); res.Err != nil {
			t.Fatalf("REPLAY-FAIL %s: %v", label, res.Err)
		}
		fmt.Printf("REPLAY-PASS %s\n", label)
		return
	}
	jr := os.Getenv("VERIF_JOURNAL") != ""
	i := int64(0)
	cases(func(c C) bool {
		i++
		if (i-1)%Shards() != Shard() {
			return true
		}
		if jr {
			journal(label, c)
		}
		res := Safe(check, c)
		Record(label, c, res)
		if res.Err != nil {
			st.mu.Lock()
			st.Violations = 1
			st.mu.Unlock()
			writeReplay(label, c, res.Err)
			t.Errorf("%s: %v", label, res.Err)
			return false
		}
		return true
	})
	Exhaustive(label)
}

// ---- known findings -------------------------------------------------------

type Finding struct {
	ID         string   `json:"id"`
	Properties []string `json:"property_ids"`
	Status     string   `json:"status"` // known | fixed
	Commit     string   `json:"commit,omitempty"`
	Key        string   `json:"key"`
	What       string   `json:"what"`
	Sentinel   string   `json:"sentinel,omitempty"`
	Items      []string `json:"items,omitempty"` // the specific types / call sites the finding is confined to
}

// KnownFor is Known restricted to the items listed for the finding (a different item hitting the same
// symptom is reported as a violation).
func KnownFor(id, item string) bool {
	if !Known(id) {
		return false
	}
	for _, it := range knownMap[id].Items {
		if it == item {
			return true
		}
	}
	return false
}

var (
	knownOnce sync.Once
	knownMap  map[string]Finding
)

// Known reports whether finding id is listed with status "known" (its input class is then excluded and counted).
func Known(id string) bool {
	knownOnce.Do(func() {
		knownMap = map[string]Finding{}
		path := os.Getenv("VERIF_KNOWN")
		if path == "" {
			path = "/verif/known_findings.json"
		}
		b, err := os.ReadFile(path)
		if err != nil {
			return
		}
		var fs struct {
			Findings []Finding `json:"findings"`
		}
		if json.Unmarshal(b, &fs) == nil {
			for _, f := range fs.Findings {
				knownMap[f.ID] = f
			}
		}
	})
	return knownMap[id].Status == "known"
}

// HexBytes marshals as a hex string (more readable in replay files than base64).
type HexBytes []byte

func (h HexBytes) MarshalJSON() ([]byte, error) {
	const d = "0123456789abcdef"
	out := make([]byte, 0, 2*len(h)+2)
	out = append(out, '"')
	for _, b := range h {
		out = append(out, d[b>>4], d[b&15])
	}
	return append(out, '"'), nil
}

func (h *HexBytes) UnmarshalJSON(b []byte) error {
	var s string
	if err := json.Unmarshal(b, &s); err != nil {
		return err
	}
	if len(s)%2 != 0 {
		return fmt.Errorf("odd hex")
	}
	out := make([]byte, len(s)/2)
	for i := range out {
		v, err := strconv.ParseUint(s[2*i:2*i+2], 16, 8)
		if err != nil {
			return err
		}
		out[i] = byte(v)
	}
	*h = out
	return nil
}

// SaveReplay writes a replay file for a failure found outside Run (a native fuzz target); label must be the label of
// the Run whose replay path re-executes the case.
func SaveReplay(label string, c any, err error) { writeReplay(label, c, err) }
