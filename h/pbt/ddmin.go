package pbt

// DDMin is a plain delta-debugging reducer over a list: it returns a sub-list for which fails() still holds and from
// which no single chunk (down to single elements) can be removed. Used to minimise failing histories / command
// sequences independently of the library's own shrinking.
func DDMin[T any](items []T, fails func([]T) bool) []T {
	cur := append([]T{}, items...)
	n := 2
	for len(cur) >= 2 {
		chunk := (len(cur) + n - 1) / n
		reduced := false
		for start := 0; start < len(cur); start += chunk {
			end := min(len(cur), start+chunk)
			cand := append(append([]T{}, cur[:start]...), cur[end:]...)
			if len(cand) > 0 && fails(cand) {
				cur = cand
				n = max(n-1, 2)
				reduced = true
				break
			}
		}
		if !reduced {
			if chunk == 1 {
				break
			}
			n = min(len(cur), n*2)
		}
	}
	return cur
}
