// Package refcodec is the harness' independent implementation of the documented TL1 wire format over the harness
// schema model (schemagen): a type-directed value generator, an encoder and a decoder. It shares no code with /repo.
//
// Format (docs/tldoc.ru.md, TLPrimer): little-endian primitives; string = 1/4/8-byte length form + bytes + zero padding
// to a multiple of 4; a boxed reference writes the 4-byte constructor tag first, a bare one does not; a union is its
// constructor's tag followed by the constructor's fields; a field under a mask is present iff the bit is set in the
// value of the mask (an earlier # field or a # template argument); n*[t] is n repetitions without a count; template
// arguments are passed, not stored; the implicit tag is the CRC32 of the canonical form.
package refcodec

import (
	"encoding/binary"
	"fmt"
	"math"
	"sort"
	"strings"

	"github.com/VKCOM/tl/internal/tlast"
	"github.com/VKCOM/tl/verifh/schemagen"
)

type Value struct {
	Kind   string            `json:"k"` // nat int long float double string struct array
	U      uint64            `json:"u,omitempty"`
	S      []byte            `json:"s,omitempty"`
	Ctor   string            `json:"ctor,omitempty"`
	Fields map[string]*Value `json:"f,omitempty"`
	Elems  []*Value          `json:"e,omitempty"`
}

type Resolver struct {
	RawNats bool // generate arbitrary numbers for # fields that are neither masks nor sizes
	byCtor map[string]*schemagen.Comb
	byType map[string][]*schemagen.Comb
}

var preludeCombs []*schemagen.Comb

func init() {
	tl, err := tlast.ParseTLFile(schemagen.Prelude, "prelude.tl", tlast.LexerOptions{LexerLanguage: tlast.TL1})
	if err != nil {
		panic(err)
	}
	for _, c := range tl.Combinators() {
		preludeCombs = append(preludeCombs, schemagen.FromTlast(c))
	}
}

// NewResolverRaw is for a schema that was parsed from a complete file (its own builtin wrappers and containers included).
func NewResolverRaw(s *schemagen.Schema) *Resolver {
	r := &Resolver{byCtor: map[string]*schemagen.Comb{}, byType: map[string][]*schemagen.Comb{}}
	for _, c := range s.Combs {
		r.byCtor[c.Name] = c
		if !c.IsFunc {
			r.byType[c.ResultType] = append(r.byType[c.ResultType], c)
		}
	}
	return r
}

func NewResolver(s *schemagen.Schema) *Resolver {
	r := &Resolver{byCtor: map[string]*schemagen.Comb{}, byType: map[string][]*schemagen.Comb{}}
	for _, c := range append(append([]*schemagen.Comb{}, preludeCombs...), s.Combs...) {
		r.byCtor[c.Name] = c
		if !c.IsFunc {
			r.byType[c.ResultType] = append(r.byType[c.ResultType], c)
		}
	}
	return r
}

// closed type: every nat argument is a constant and there are no type parameters left
type env struct {
	nat map[string]uint32
	ty  map[string]schemagen.TypeExpr
}

func (e env) evalNat(n *schemagen.NatExpr) (uint32, error) {
	if n.Kind == "const" {
		return n.Const, nil
	}
	v, ok := e.nat[n.Name]
	if !ok {
		return 0, fmt.Errorf("nat %q is not defined", n.Name)
	}
	return v, nil
}

// close substitutes the environment into t.
func (e env) close(t schemagen.TypeExpr) (schemagen.TypeExpr, error) {
	switch t.Kind {
	case "tparam":
		c, ok := e.ty[t.Name]
		if !ok {
			return t, fmt.Errorf("type parameter %q is not bound", t.Name)
		}
		return c, nil
	case "ref":
		if c, ok := e.ty[t.Name]; ok && len(t.Args) == 0 { // a type parameter written like a reference
			return c, nil
		}
		out := t
		out.Args = nil
		for _, a := range t.Args {
			if a.Nat != nil {
				v, err := e.evalNat(a.Nat)
				if err != nil {
					// a name that is not a nat may be a type parameter used as an argument
					if c, ok := e.ty[a.Nat.Name]; ok {
						cc := c
						out.Args = append(out.Args, schemagen.Arg{Type: &cc})
						continue
					}
					return t, err
				}
				out.Args = append(out.Args, schemagen.Arg{Nat: &schemagen.NatExpr{Kind: "const", Const: v}})
			} else {
				// an argument spelled as a bare name may denote a nat field/parameter
				if a.Type.Kind == "ref" && len(a.Type.Args) == 0 {
					if v, ok := e.nat[a.Type.Name]; ok {
						out.Args = append(out.Args, schemagen.Arg{Nat: &schemagen.NatExpr{Kind: "const", Const: v}})
						continue
					}
				}
				c, err := e.close(*a.Type)
				if err != nil {
					return t, err
				}
				out.Args = append(out.Args, schemagen.Arg{Type: &c})
			}
		}
		return out, nil
	}
	return t, nil
}

func isPrim(name string) bool {
	switch name {
	case "#", "int", "long", "float", "double", "string":
		return true
	}
	return false
}

// resolve finds the constructors a closed reference may denote and whether it is boxed.
func (r *Resolver) resolve(t schemagen.TypeExpr) (ctors []*schemagen.Comb, boxed bool, err error) {
	if c, ok := r.byCtor[t.Name]; ok && !upper(t.Name) {
		return []*schemagen.Comb{c}, false, nil
	}
	cs, ok := r.byType[t.Name]
	if !ok {
		return nil, false, fmt.Errorf("unknown type %q", t.Name)
	}
	if t.Bare {
		if len(cs) != 1 {
			return nil, false, fmt.Errorf("bare reference to union %q", t.Name)
		}
		return cs, false, nil
	}
	return cs, true, nil
}

func upper(name string) bool {
	if i := strings.LastIndex(name, "."); i >= 0 {
		name = name[i+1:]
	}
	return name != "" && name[0] >= 'A' && name[0] <= 'Z'
}

// bind builds the environment of a constructor applied to closed arguments.
func bind(c *schemagen.Comb, args []schemagen.Arg) (env, error) {
	e := env{nat: map[string]uint32{}, ty: map[string]schemagen.TypeExpr{}}
	if len(args) != len(c.Params) {
		return e, fmt.Errorf("%s takes %d arguments, %d given", c.Name, len(c.Params), len(args))
	}
	for i, p := range c.Params {
		if p.IsNat {
			if args[i].Nat == nil {
				return e, fmt.Errorf("%s: argument %s must be a number", c.Name, p.Name)
			}
			e.nat[p.Name] = args[i].Nat.Const
		} else {
			if args[i].Type == nil {
				return e, fmt.Errorf("%s: argument %s must be a type", c.Name, p.Name)
			}
			e.ty[p.Name] = *args[i].Type
		}
	}
	return e, nil
}

func fieldKey(f schemagen.Field, i int) string {
	return fmt.Sprintf("_%d", i) // positional: renaming a field does not change a value
}

func isNatField(f schemagen.Field) bool {
	return (f.Type.Kind == "prim" || f.Type.Kind == "ref") && f.Type.Name == "#" && len(f.Type.Args) == 0
}

// ---- encoder ---------------------------------------------------------------------------------------

func putString(w []byte, s []byte) []byte {
	l := len(s)
	switch {
	case l <= 253:
		w = append(w, byte(l))
	case l < 1<<24:
		w = append(w, 254, byte(l), byte(l>>8), byte(l>>16))
	default:
		w = append(w, 255, byte(l), byte(l>>8), byte(l>>16), byte(l>>24), byte(l>>32), byte(l>>40), byte(l>>48))
	}
	w = append(w, s...)
	for len(w)%4 != 0 {
		w = append(w, 0)
	}
	return w
}

func le32(w []byte, v uint32) []byte { return binary.LittleEndian.AppendUint32(w, v) }

// Encode writes v as the closed type t.
func (r *Resolver) Encode(w []byte, t schemagen.TypeExpr, v *Value) ([]byte, error) {
	if t.Kind == "prim" || (t.Kind == "ref" && isPrim(t.Name) && len(t.Args) == 0) {
		switch t.Name {
		case "#", "int", "float":
			return le32(w, uint32(v.U)), nil
		case "long", "double":
			return binary.LittleEndian.AppendUint64(w, v.U), nil
		case "string":
			return putString(w, v.S), nil
		}
	}
	ctors, boxed, err := r.resolve(t)
	if err != nil {
		return w, err
	}
	var c *schemagen.Comb
	for _, x := range ctors {
		if x.Name == v.Ctor {
			c = x
		}
	}
	if c == nil {
		return w, fmt.Errorf("value of constructor %q cannot be written as %s", v.Ctor, t.Plain(true))
	}
	if boxed {
		w = le32(w, c.EffectiveTag())
	}
	return r.encodeBody(w, c, t.Args, v)
}

func (r *Resolver) encodeBody(w []byte, c *schemagen.Comb, args []schemagen.Arg, v *Value) ([]byte, error) {
	if len(c.Fields) == 1 && c.Fields[0].Type.Name == "?" { // builtin wrapper: int ? = Int
		return r.Encode(w, schemagen.TypeExpr{Kind: "prim", Name: c.Name}, v.Fields["_0"])
	}
	e, err := bind(c, args)
	if err != nil {
		return w, err
	}
	lastNat := ""
	for _, p := range c.Params {
		if p.IsNat {
			lastNat = p.Name
		}
	}
	for i, f := range c.Fields {
		key, name := fieldKey(f, i), f.Name
		if name == "" {
			name = key
		}
		if f.Mask != nil {
			m, ok := e.nat[f.Mask.Src]
			if !ok {
				return w, fmt.Errorf("%s.%s: mask %q is not defined", c.Name, key, f.Mask.Src)
			}
			if m>>uint(f.Mask.Bit)&1 == 0 {
				if isNatField(f) {
					e.nat[name] = 0 // an absent # field counts as 0 for the fields that depend on it
				}
				continue
			}
		}
		fv := v.Fields[key]
		if f.Type.Kind == "brackets" {
			n, err := r.repCount(e, f.Type, lastNat)
			if err != nil {
				return w, fmt.Errorf("%s.%s: %v", c.Name, key, err)
			}
			if fv == nil {
				fv = &Value{Kind: "array"}
			}
			if uint32(len(fv.Elems)) != n {
				return w, fmt.Errorf("%s.%s: %d elements, size is %d", c.Name, key, len(fv.Elems), n)
			}
			for _, el := range fv.Elems {
				for j, rf := range f.Type.Rep {
					ct, err := e.close(rf.Type)
					if err != nil {
						return w, err
					}
					ev := el
					if len(f.Type.Rep) > 1 {
						ev = el.Fields[fieldKey(rf, j)]
					}
					if w, err = r.Encode(w, ct, ev); err != nil {
						return w, err
					}
				}
			}
			continue
		}
		ct, err := e.close(f.Type)
		if err != nil {
			return w, fmt.Errorf("%s.%s: %v", c.Name, key, err)
		}
		if fv == nil {
			fv = r.Zero(ct) // a field this value does not have (e.g. added by a newer schema): its empty value
		}
		if w, err = r.Encode(w, ct, fv); err != nil {
			return w, err
		}
		if isNatField(f) {
			e.nat[name] = uint32(fv.U)
			lastNat = name
		}
	}
	return w, nil
}

func (r *Resolver) repCount(e env, t schemagen.TypeExpr, lastNat string) (uint32, error) {
	if t.Scale != nil {
		return e.evalNat(t.Scale)
	}
	if lastNat == "" {
		return 0, fmt.Errorf("repetition without a preceding # field")
	}
	return e.nat[lastNat], nil
}

// Zero is the empty value of a closed type (first constructor, zero numbers, empty strings and arrays, masks zero).
func (r *Resolver) Zero(t schemagen.TypeExpr) *Value {
	if t.Kind == "prim" || (t.Kind == "ref" && isPrim(t.Name) && len(t.Args) == 0) {
		k := t.Name
		if k == "#" {
			k = "nat"
		}
		return &Value{Kind: k}
	}
	ctors, _, err := r.resolve(t)
	if err != nil || len(ctors) == 0 {
		return &Value{Kind: "struct"}
	}
	return r.zeroOf(ctors[0], t.Args, 0)
}

func (r *Resolver) zeroOf(c *schemagen.Comb, args []schemagen.Arg, depth int) *Value {
	v := &Value{Kind: "struct", Ctor: c.Name, Fields: map[string]*Value{}}
	if depth > 6 {
		return v
	}
	e, err := bind(c, args)
	if err != nil {
		return v
	}
	lastNat := ""
	for _, p := range c.Params {
		if p.IsNat {
			lastNat = p.Name
		}
	}
	for i, f := range c.Fields {
		key, name := fieldKey(f, i), f.Name
		if name == "" {
			name = key
		}
		if f.Mask != nil && e.nat[f.Mask.Src]>>uint(f.Mask.Bit)&1 == 0 {
			if isNatField(f) {
				e.nat[name] = 0 // an absent # field counts as 0 for the fields that depend on it
			}
			continue
		}
		if f.Type.Kind == "brackets" {
			n, _ := r.repCount(e, f.Type, lastNat)
			arr := &Value{Kind: "array"}
			for k := uint32(0); k < n && k < 64; k++ {
				if len(f.Type.Rep) == 1 {
					ct, _ := e.close(f.Type.Rep[0].Type)
					arr.Elems = append(arr.Elems, r.Zero(ct))
				} else {
					el := &Value{Kind: "struct", Fields: map[string]*Value{}}
					for j, rf := range f.Type.Rep {
						ct, _ := e.close(rf.Type)
						el.Fields[fieldKey(rf, j)] = r.Zero(ct)
					}
					arr.Elems = append(arr.Elems, el)
				}
			}
			v.Fields[key] = arr
			continue
		}
		if f.Type.Name == "?" {
			v.Fields["_0"] = &Value{Kind: c.Name}
			continue
		}
		ct, err := e.close(f.Type)
		if err != nil {
			continue
		}
		fv := r.Zero(ct)
		v.Fields[key] = fv
		if isNatField(f) {
			e.nat[name] = 0
			lastNat = name
		}
	}
	return v
}

// ---- decoder ---------------------------------------------------------------------------------------------

var ErrShort = fmt.Errorf("unexpected end of input")

func getString(b []byte) ([]byte, []byte, error) {
	if len(b) == 0 {
		return nil, b, ErrShort
	}
	l, hdr := int(b[0]), 1
	switch {
	case b[0] == 254:
		if len(b) < 4 {
			return nil, b, ErrShort
		}
		l, hdr = int(b[1])|int(b[2])<<8|int(b[3])<<16, 4
		if l <= 253 {
			return nil, b, fmt.Errorf("non-minimal string length form")
		}
	case b[0] == 255:
		if len(b) < 8 {
			return nil, b, ErrShort
		}
		l64 := uint64(b[1]) | uint64(b[2])<<8 | uint64(b[3])<<16 | uint64(b[4])<<24 | uint64(b[5])<<32 | uint64(b[6])<<40 | uint64(b[7])<<48
		if l64 < 1<<24 {
			return nil, b, fmt.Errorf("non-minimal string length form")
		}
		if l64 > uint64(len(b)) {
			return nil, b, ErrShort
		}
		l, hdr = int(l64), 8
	}
	end := (hdr + l + 3) &^ 3
	if len(b) < end {
		return nil, b, ErrShort
	}
	for _, p := range b[hdr+l : end] {
		if p != 0 {
			return nil, b, fmt.Errorf("non-zero string padding")
		}
	}
	return append([]byte{}, b[hdr:hdr+l]...), b[end:], nil
}

// Decode reads a value of the closed type t.
func (r *Resolver) Decode(b []byte, t schemagen.TypeExpr) (*Value, []byte, error) {
	if t.Kind == "prim" || (t.Kind == "ref" && isPrim(t.Name) && len(t.Args) == 0) {
		switch t.Name {
		case "#", "int", "float":
			if len(b) < 4 {
				return nil, b, ErrShort
			}
			k := t.Name
			if k == "#" {
				k = "nat"
			}
			return &Value{Kind: k, U: uint64(binary.LittleEndian.Uint32(b))}, b[4:], nil
		case "long", "double":
			if len(b) < 8 {
				return nil, b, ErrShort
			}
			return &Value{Kind: t.Name, U: binary.LittleEndian.Uint64(b)}, b[8:], nil
		case "string":
			s, rest, err := getString(b)
			if err != nil {
				return nil, b, err
			}
			return &Value{Kind: "string", S: s}, rest, nil
		}
	}
	ctors, boxed, err := r.resolve(t)
	if err != nil {
		return nil, b, err
	}
	c := ctors[0]
	if boxed {
		if len(b) < 4 {
			return nil, b, ErrShort
		}
		tag := binary.LittleEndian.Uint32(b)
		c = nil
		for _, x := range ctors {
			if x.EffectiveTag() == tag {
				c = x
			}
		}
		if c == nil {
			return nil, b, fmt.Errorf("tag %08x is not a constructor of %s", tag, t.Name)
		}
		b = b[4:]
	}
	return r.decodeBody(b, c, t.Args)
}

func (r *Resolver) decodeBody(b []byte, c *schemagen.Comb, args []schemagen.Arg) (*Value, []byte, error) {
	if decodeBudget--; decodeBudget < 0 { // every object counts too: deep recursive values are cheap in bytes, not in nodes
		return nil, b, ErrBudget
	}
	v := &Value{Kind: "struct", Ctor: c.Name, Fields: map[string]*Value{}}
	if len(c.Fields) == 1 && c.Fields[0].Type.Name == "?" {
		fv, rest, err := r.Decode(b, schemagen.TypeExpr{Kind: "prim", Name: c.Name})
		v.Fields["_0"] = fv
		return v, rest, err
	}
	e, err := bind(c, args)
	if err != nil {
		return nil, b, err
	}
	lastNat := ""
	for _, p := range c.Params {
		if p.IsNat {
			lastNat = p.Name
		}
	}
	for i, f := range c.Fields {
		key, name := fieldKey(f, i), f.Name
		if name == "" {
			name = key
		}
		if f.Mask != nil && e.nat[f.Mask.Src]>>uint(f.Mask.Bit)&1 == 0 {
			if isNatField(f) {
				e.nat[name] = 0 // an absent # field counts as 0 for the fields that depend on it
			}
			continue
		}
		if f.Type.Kind == "brackets" {
			n, err := r.repCount(e, f.Type, lastNat)
			if err != nil {
				return nil, b, err
			}
			arr := &Value{Kind: "array"}
			for k := uint32(0); k < n; k++ {
				if len(b) == 0 && k < n && minSize(f.Type) > 0 {
					return nil, b, ErrShort
				}
				if decodeBudget--; decodeBudget < 0 || len(arr.Elems) > 1<<20 {
					return nil, b, ErrBudget
				}
				el := &Value{Kind: "struct", Fields: map[string]*Value{}}
				for j, rf := range f.Type.Rep {
					ct, err := e.close(rf.Type)
					if err != nil {
						return nil, b, err
					}
					var ev *Value
					if ev, b, err = r.Decode(b, ct); err != nil {
						return nil, b, err
					}
					if len(f.Type.Rep) == 1 {
						el = ev
					} else {
						el.Fields[fieldKey(rf, j)] = ev
					}
				}
				arr.Elems = append(arr.Elems, el)
			}
			v.Fields[key] = arr
			continue
		}
		ct, err := e.close(f.Type)
		if err != nil {
			return nil, b, err
		}
		var fv *Value
		if fv, b, err = r.Decode(b, ct); err != nil {
			if err == ErrBudget || len(err.Error()) > 400 {
				return nil, b, err // a path of thousands of levels is no use to anyone and quadratic in memory
			}
			return nil, b, fmt.Errorf("%s.%s: %w", c.Name, key, err)
		}
		v.Fields[key] = fv
		if isNatField(f) {
			e.nat[name] = uint32(fv.U)
			lastNat = name
		}
	}
	return v, b, nil
}

// minSize is a cheap lower bound used only to stop absurd repetition counts early (0 = may be empty).
func minSize(t schemagen.TypeExpr) int {
	if len(t.Rep) == 1 && t.Rep[0].Type.Kind == "ref" && isPrim(t.Rep[0].Type.Name) {
		return 4
	}
	return 0
}

// ---- value generation ----------------------------------------------------------------------------------------

type Rand struct{ s uint64 }

func NewRand(seed uint64) *Rand { return &Rand{s: seed*0x9E3779B97F4A7C15 + 77} }
func (r *Rand) Next() uint64 {
	r.s += 0x9E3779B97F4A7C15
	z := r.s
	z = (z ^ (z >> 30)) * 0xBF58476D1CE4E5B9
	z = (z ^ (z >> 27)) * 0x94D049BB133111EB
	return z ^ (z >> 31)
}
func (r *Rand) Intn(n int) int { return int(r.Next() % uint64(n)) }

var intEdges = []int64{0, 0, 1, -1, 255, 256, 2147483647, -2147483648, 4294967295, 9007199254740993, -9223372036854775808, 9223372036854775807}

// no negative zero and no NaN payloads: the JSON form of the former is read back as +0 by design of the empty-value
// optimisation (known finding F24 is about the writer), the latter cannot be carried by the documented string "NaN"
var f32Edges = []uint32{0, 0, math.Float32bits(1), math.Float32bits(-1.5), math.Float32bits(0.1), math.Float32bits(16777216), math.Float32bits(math.MaxFloat32), math.Float32bits(math.SmallestNonzeroFloat32), 0x7f800000, 0xff800000, 0x7fc00000}
var f64Edges = []uint64{0, 0, math.Float64bits(1), math.Float64bits(-2.25), math.Float64bits(0.1), math.Float64bits(9007199254740993), math.Float64bits(math.MaxFloat64), math.Float64bits(math.SmallestNonzeroFloat64), 0x7ff0000000000000, 0xfff0000000000000, 0x7ff8000000000001}

var strEdges = [][]byte{nil, []byte("a"), []byte("ab"), []byte("abc"), []byte("abcd"), []byte("\x00\xff"), []byte("ключ"), []byte(strings.Repeat("x", 253)), []byte(strings.Repeat("y", 254)), []byte(strings.Repeat("z", 300))}

// MeaningfulBits returns the bits of nat source `name` (a # field or # parameter of c) that the schema gives meaning to:
// bits tested by masked fields of c, and bits meaningful to templates the nat is passed to.
func (r *Resolver) MeaningfulBits(c *schemagen.Comb, name string, depth int) uint32 {
	var bits uint32
	if depth > 5 {
		return 0
	}
	for _, f := range c.Fields {
		if f.Mask != nil && f.Mask.Src == name {
			bits |= 1 << uint(f.Mask.Bit)
		}
	}
	var walk func(t *schemagen.TypeExpr)
	walk = func(t *schemagen.TypeExpr) {
		if t.Kind == "ref" {
			var targets []*schemagen.Comb
			if x, ok := r.byCtor[t.Name]; ok && !upper(t.Name) {
				targets = []*schemagen.Comb{x}
			} else {
				targets = r.byType[t.Name]
			}
			for i, a := range t.Args {
				passed := a.Nat != nil && a.Nat.Kind != "const" && a.Nat.Name == name || a.Type != nil && a.Type.Kind == "ref" && a.Type.Name == name && len(a.Type.Args) == 0
				if passed {
					for _, tc := range targets {
						if i < len(tc.Params) && tc.Params[i].IsNat {
							bits |= r.MeaningfulBits(tc, tc.Params[i].Name, depth+1)
						}
					}
				}
				if a.Type != nil {
					walk(a.Type)
				}
			}
		}
		for i := range t.Rep {
			walk(&t.Rep[i].Type)
		}
	}
	for i := range c.Fields {
		walk(&c.Fields[i].Type)
	}
	if c.FuncResult != nil {
		walk(c.FuncResult)
	}
	return bits
}

// usedAsSize: the nat source is used as a repetition count or passed on as a (non-mask) nat argument.
func (r *Resolver) usedAsSize(c *schemagen.Comb, name string) bool {
	found := false
	var walk func(t *schemagen.TypeExpr)
	walk = func(t *schemagen.TypeExpr) {
		if t.Scale != nil && t.Scale.Kind != "const" && t.Scale.Name == name {
			found = true
		}
		for _, a := range t.Args {
			if a.Nat != nil && a.Nat.Kind != "const" && a.Nat.Name == name {
				found = true
			}
			if a.Type != nil {
				if a.Type.Kind == "ref" && a.Type.Name == name {
					found = true
				}
				walk(a.Type)
			}
		}
		for i := range t.Rep {
			walk(&t.Rep[i].Type)
		}
	}
	for i := range c.Fields {
		walk(&c.Fields[i].Type)
	}
	if c.FuncResult != nil {
		walk(c.FuncResult)
	}
	return found
}

// implicitScale: field i (a # field) is the most recent nat before a repetition without an explicit count.
func (r *Resolver) implicitScale(c *schemagen.Comb, i int) bool {
	for j := i + 1; j < len(c.Fields); j++ {
		if isNatField(c.Fields[j]) {
			return false
		}
		if c.Fields[j].Type.Kind == "brackets" && c.Fields[j].Type.Scale == nil {
			return true
		}
	}
	return false
}

// EncodeTop writes a parameter-free constructor or function boxed (tag, then fields).
func (r *Resolver) EncodeTop(c *schemagen.Comb, v *Value) ([]byte, error) {
	return r.encodeBody(le32(nil, c.EffectiveTag()), c, nil, v)
}

// DecodeTop reads what EncodeTop wrote.
// ErrBudget: the input denotes more array elements (over all nesting levels, zero-width ones included) than the reference
// decoder is willing to materialise; callers treat it as "not decided by the reference", never as a verdict.
var ErrBudget = fmt.Errorf("value too large for the reference decoder")

var decodeBudget int

func (r *Resolver) DecodeTop(b []byte, c *schemagen.Comb) (*Value, []byte, error) {
	decodeBudget = 1 << 19
	if len(b) < 4 {
		return nil, b, ErrShort
	}
	if tag := binary.LittleEndian.Uint32(b); tag != c.EffectiveTag() {
		return nil, b, fmt.Errorf("tag %08x instead of %08x", tag, c.EffectiveTag())
	}
	return r.decodeBody(b[4:], c, nil)
}

// GenTop draws a value of a parameter-free constructor or function.
func (r *Resolver) GenTop(rnd *Rand, c *schemagen.Comb) (*Value, error) { return r.genBody(rnd, c, nil, 0) }

// Gen draws a random value of the closed type t.
func (r *Resolver) Gen(rnd *Rand, t schemagen.TypeExpr, depth int) (*Value, error) {
	if t.Kind == "prim" || (t.Kind == "ref" && isPrim(t.Name) && len(t.Args) == 0) {
		switch t.Name {
		case "#":
			return &Value{Kind: "nat", U: uint64(rnd.Intn(4))}, nil
		case "int":
			if rnd.Intn(4) == 0 {
				return &Value{Kind: "int", U: uint64(uint32(intEdges[rnd.Intn(len(intEdges))]))}, nil
			}
			return &Value{Kind: "int", U: uint64(uint32(rnd.Next()))}, nil
		case "float":
			if rnd.Intn(4) == 0 {
				return &Value{Kind: "float", U: uint64(f32Edges[rnd.Intn(len(f32Edges))])}, nil
			}
			return &Value{Kind: "float", U: uint64(math.Float32bits(float32(rnd.Intn(1000)) / 8))}, nil
		case "long":
			if rnd.Intn(4) == 0 {
				return &Value{Kind: "long", U: uint64(intEdges[rnd.Intn(len(intEdges))])}, nil
			}
			return &Value{Kind: "long", U: rnd.Next()}, nil
		case "double":
			if rnd.Intn(4) == 0 {
				return &Value{Kind: "double", U: f64Edges[rnd.Intn(len(f64Edges))]}, nil
			}
			return &Value{Kind: "double", U: math.Float64bits(float64(rnd.Intn(100000)) / 16)}, nil
		case "string":
			if rnd.Intn(3) == 0 {
				return &Value{Kind: "string", S: strEdges[rnd.Intn(len(strEdges))]}, nil
			}
			if depth <= 2 && rnd.Intn(40) == 0 { // the TL2 size forms change at 254 and at 254+2^16; TL1's at 254 and 2^24
				n := []int{65789, 65790, 65791, 65536, 70000}[rnd.Intn(5)]
				return &Value{Kind: "string", S: []byte(strings.Repeat("L", n))}, nil
			}
			s := make([]byte, rnd.Intn(12))
			for i := range s {
				s[i] = byte('a' + rnd.Intn(26))
			}
			return &Value{Kind: "string", S: s}, nil
		}
	}
	ctors, _, err := r.resolve(t)
	if err != nil {
		return nil, err
	}
	c := ctors[rnd.Intn(len(ctors))]
	if depth > 4 { // keep recursive types finite: prefer the first (usually empty) constructor and empty containers
		c = ctors[0]
	}
	if len(ctors) > 1 && depth <= 4 && rnd.Intn(8) == 0 {
		// a variant whose payload is entirely empty: JSON may then name the variant without any "value"
		return r.zeroOf(c, t.Args, 0), nil
	}
	return r.genBody(rnd, c, t.Args, depth)
}

func (r *Resolver) genBody(rnd *Rand, c *schemagen.Comb, args []schemagen.Arg, depth int) (*Value, error) {
	v := &Value{Kind: "struct", Ctor: c.Name, Fields: map[string]*Value{}}
	if len(c.Fields) == 1 && c.Fields[0].Type.Name == "?" {
		fv, err := r.Gen(rnd, schemagen.TypeExpr{Kind: "prim", Name: c.Name}, depth)
		v.Fields["_0"] = fv
		return v, err
	}
	e, err := bind(c, args)
	if err != nil {
		return nil, err
	}
	lastNat := ""
	for _, p := range c.Params {
		if p.IsNat {
			lastNat = p.Name
		}
	}
	for i, f := range c.Fields {
		key, name := fieldKey(f, i), f.Name
		if name == "" {
			name = key
		}
		if f.Mask != nil && e.nat[f.Mask.Src]>>uint(f.Mask.Bit)&1 == 0 {
			if isNatField(f) {
				e.nat[name] = 0 // an absent # field counts as 0 for the fields that depend on it
			}
			continue
		}
		if f.Type.Kind == "brackets" {
			n, err := r.repCount(e, f.Type, lastNat)
			if err != nil {
				return nil, err
			}
			if n > 4096 {
				return nil, fmt.Errorf("%s.%s: refusing to generate %d elements", c.Name, key, n)
			}
			arr := &Value{Kind: "array"}
			for k := uint32(0); k < n; k++ {
				el := &Value{Kind: "struct", Fields: map[string]*Value{}}
				for j, rf := range f.Type.Rep {
					ct, err := e.close(rf.Type)
					if err != nil {
						return nil, err
					}
					ev, err := r.Gen(rnd, ct, depth+1)
					if err != nil {
						return nil, err
					}
					if len(f.Type.Rep) == 1 {
						el = ev
					} else {
						el.Fields[fieldKey(rf, j)] = ev
					}
				}
				arr.Elems = append(arr.Elems, el)
			}
			v.Fields[key] = arr
			continue
		}
		ct, err := e.close(f.Type)
		if err != nil {
			return nil, fmt.Errorf("%s.%s: %v", c.Name, key, err)
		}
		var fv *Value
		if isNatField(f) {
			// a # field: a count (small), a mask (subset of the meaningful bits), or both roles absent (anything)
			bits := r.MeaningfulBits(c, name, 0)
			switch {
			case bits != 0: // a field mask: any subset of the bits the schema gives meaning to
				m := uint32(rnd.Next()) & bits
				if depth > 3 {
					m = 0
				}
				fv = &Value{Kind: "nat", U: uint64(m)}
			case f.Name == "" || r.usedAsSize(c, name) || r.implicitScale(c, i): // a count
				n := rnd.Intn(4)
				if depth > 3 {
					n = 0
				}
				fv = &Value{Kind: "nat", U: uint64(n)}
			default:
				// no bit of it means anything (yet): read as a field mask none of whose bits is meaningful, so only 0
				// is a value "whose field-mask values set only bits the schema gives meaning to"; RawNats lifts that
				fv = &Value{Kind: "nat"}
				if r.RawNats {
					fv.U = uint64(uint32(rnd.Next()))
				}
			}
			e.nat[name] = uint32(fv.U)
			lastNat = name
		} else if fv, err = r.Gen(rnd, ct, depth+1); err != nil {
			return nil, err
		}
		v.Fields[key] = fv
	}
	return v, nil
}

// TopLevel lists the parameter-free constructors and functions of the schema (the things a registry would hold).
func TopLevel(s *schemagen.Schema) []*schemagen.Comb {
	var out []*schemagen.Comb
	for _, c := range s.Combs {
		if len(c.Params) == 0 {
			out = append(out, c)
		}
	}
	sort.SliceStable(out, func(i, j int) bool { return out[i].Name < out[j].Name })
	return out
}

// BareType is the closed bare reference to a parameter-free constructor.
func BareType(c *schemagen.Comb) schemagen.TypeExpr {
	return schemagen.TypeExpr{Kind: "ref", Name: c.Name}
}
