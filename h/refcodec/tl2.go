package refcodec

import (
	"encoding/binary"
	"fmt"

	"github.com/VKCOM/tl/verifh/schemagen"
)

// Reference TL2 writer for the TL2 view of a TL1 schema, written from TL2Primer (formats of varlen, objects with one
// presence-mask byte before every 8 fields and the variant index under bit 0, optional fields, bool/bit, arrays, bit
// arrays, dictionaries as arrays of key/value objects) and its chapter on the TL1 transition (old field masks are
// ordinary uint32 fields; a field that depends on a field mask becomes optional; fm.N?true becomes bit; Bool becomes
// bool; vector<Bool> is an array of bool in the kernel although the primer says bit; Maybe stays a union; builtin wrappers are aliases). It produces the
// minimal encoding: an unmasked field whose value is empty is left to its mask bit, trailing unused mask bytes are cut.

func tl2Size(w []byte, n int) []byte {
	switch {
	case n < 254:
		return append(w, byte(n))
	case n < 254+1<<16:
		return binary.LittleEndian.AppendUint16(append(w, 254), uint16(n-254))
	}
	return binary.LittleEndian.AppendUint64(append(w, 255), uint64(n))
}

func (r *Resolver) isBoolType(t schemagen.TypeExpr) bool {
	if isPrimType(t) {
		return false
	}
	ctors, _, err := r.resolve(t)
	return err == nil && len(ctors) == 2 && ctors[0].ResultType == "Bool" && ctors[0].Name == "boolFalse" && ctors[1].Name == "boolTrue"
}

// TL2 writes v as the closed type t; with opt an empty value is written as nothing (its field's mask bit stays clear).
func (r *Resolver) TL2(w []byte, t schemagen.TypeExpr, v *Value, opt bool) ([]byte, error) {
	if isPrimType(t) {
		return tl2Prim(w, t.Name, v, opt), nil
	}
	ctors, _, err := r.resolve(t)
	if err != nil {
		return w, err
	}
	idx := -1
	for i, x := range ctors {
		if x.Name == v.Ctor {
			idx = i
		}
	}
	if idx < 0 {
		return w, fmt.Errorf("value of constructor %q is not of type %s", v.Ctor, t.Plain(true))
	}
	c := ctors[idx]
	switch {
	case len(c.Fields) == 1 && c.Fields[0].Type.Name == "?":
		return tl2Prim(w, c.Name, v.Fields["_0"], opt), nil
	case r.isBoolType(t):
		if idx == 0 {
			if opt {
				return w, nil
			}
			return append(w, 0), nil
		}
		return append(w, 1), nil
	case c.Name == "vector" || c.Name == "tuple":
		et, err := elemType(c, t.Args)
		if err != nil {
			return w, err
		}
		return r.tl2Array(w, et, v.Fields[fmt.Sprintf("_%d", len(c.Fields)-1)], opt)
	case c.Name == "dictionary":
		// typedef of a vector of key/value objects
		e, err := bind(c, t.Args)
		if err != nil {
			return w, err
		}
		inner, err := e.close(c.Fields[0].Type)
		if err != nil {
			return w, err
		}
		iv := v.Fields["_0"]
		if iv == nil {
			iv = r.Zero(inner)
		}
		return r.TL2(w, inner, iv, opt)
	case c.Name == "dictionaryAny":
		et, err := elemType(c, t.Args)
		if err != nil {
			return w, err
		}
		return r.tl2Array(w, et, v.Fields["_1"], opt)
	}
	for _, f := range c.Fields {
		if f.Name == "" && !(c.ResultType == "Maybe" && len(ctors) == 2) {
			return w, Unsupported{"the unnamed field of " + c.Name}
		}
	}
	variant := idx
	if all := r.byType[c.ResultType]; len(ctors) == 1 && len(all) > 1 && !c.IsFunc {
		for i, x := range all { // a constructor referenced by its own name still is the i-th variant of its type
			if x == c {
				variant = i
			}
		}
	}
	if all := r.byType[c.ResultType]; len(all) > 1 && !c.IsFunc && TL2Bad != nil {
		site := TL2Bad.Seen
		TL2Bad.Seen++
		if site == TL2Bad.Site { // an object that names the variant len(all): one past the last one
			TL2Bad.Applied = true
			bad := tl2Size([]byte{1}, len(all))
			return append(tl2Size(w, len(bad)), bad...), nil
		}
	}
	body, err := r.tl2Body(c, t.Args, v, variant)
	if err != nil {
		return w, err
	}
	if len(body) == 0 {
		if opt {
			return w, nil
		}
		return append(w, 0), nil
	}
	return append(tl2Size(w, len(body)), body...), nil
}

func tl2Prim(w []byte, name string, v *Value, opt bool) []byte {
	if v == nil {
		v = &Value{}
	}
	switch name {
	case "#", "int", "float":
		if opt && uint32(v.U) == 0 {
			return w
		}
		return le32(w, uint32(v.U))
	case "long", "double":
		if opt && v.U == 0 {
			return w
		}
		return binary.LittleEndian.AppendUint64(w, v.U)
	}
	if opt && len(v.S) == 0 {
		return w
	}
	return append(tl2Size(w, len(v.S)), v.S...)
}

func (r *Resolver) tl2Array(w []byte, et schemagen.TypeExpr, arr *Value, opt bool) ([]byte, error) {
	n := 0
	if arr != nil {
		n = len(arr.Elems)
	}
	if n == 0 {
		if opt {
			return w, nil
		}
		return append(w, 0), nil
	}
	body := tl2Size(nil, n)
	// Note: the primer's transition chapter says "vector<Bool> becomes vector<bit>"; the kernel (internal/pure) maps Bool
	// to bool everywhere, and an array of bool is an array of bytes. The kernel is followed here (see DESIGN.md 0.5).
	if false {
	} else {
		if !isPrimType(et) {
			if cs, _, err := r.resolve(et); err == nil && len(cs) == 1 && cs[0].Name == "true" {
				return w, Unsupported{"an array of true"}
			}
		}
		var err error
		for _, el := range arr.Elems {
			if body, err = r.TL2(body, et, el, false); err != nil {
				return w, err
			}
		}
	}
	return append(tl2Size(w, len(body)), body...), nil
}

// tl2Body is the content of an object (mask bytes and fields) cut after the last used byte.
func (r *Resolver) tl2Body(c *schemagen.Comb, args []schemagen.Arg, v *Value, variant int) ([]byte, error) {
	e, err := bind(c, args)
	if err != nil {
		return nil, err
	}
	lastNat := ""
	for _, p := range c.Params {
		if p.IsNat {
			lastNat = p.Name
		}
	}
	buf := []byte{0}
	blockPos, used := 0, 0
	var block byte
	if variant != 0 {
		buf = tl2Size(buf, variant)
		block |= 1
		used = len(buf)
	}
	for i, f := range c.Fields {
		if (i+1)%8 == 0 {
			buf[blockPos] = block
			block, blockPos = 0, len(buf)
			buf = append(buf, 0)
		}
		bit := byte(1) << uint((i+1)%8)
		key, name := fieldKey(f, i), f.Name
		if name == "" {
			name = key
		}
		masked := f.Mask != nil
		if masked {
			m, ok := e.nat[f.Mask.Src]
			if !ok {
				return nil, fmt.Errorf("%s.%s: mask %q is not defined", c.Name, key, f.Mask.Src)
			}
			if m>>uint(f.Mask.Bit)&1 == 0 {
				if isNatField(f) {
					e.nat[name] = 0
				}
				continue
			}
		}
		fv := v.Fields[key]
		before := len(buf)
		if f.Type.Kind == "brackets" {
			if len(f.Type.Rep) != 1 {
				return nil, Unsupported{"a repetition of several fields in " + c.Name}
			}
			if _, err := r.repCount(e, f.Type, lastNat); err != nil {
				return nil, err
			}
			et, err := e.close(f.Type.Rep[0].Type)
			if err != nil {
				return nil, err
			}
			if buf, err = r.tl2Array(buf, et, fv, !masked); err != nil {
				return nil, err
			}
		} else {
			ct, err := e.close(f.Type)
			if err != nil {
				return nil, err
			}
			if fv == nil {
				fv = r.Zero(ct)
			}
			isTrue := f.Type.Kind == "ref" && (f.Type.Name == "true" || f.Type.Name == "True") && len(f.Type.Args) == 0
			switch {
			case masked && isTrue: // a bit: nothing but the mask bit
				block |= bit
				if used < blockPos+1 {
					used = blockPos + 1
				}
				continue
			case isTrue: // an empty object that is always empty
			default:
				if buf, err = r.TL2(buf, ct, fv, !masked); err != nil {
					return nil, err
				}
			}
			if isNatField(f) {
				e.nat[name] = uint32(fv.U)
				lastNat = name
			}
		}
		if masked && len(buf) == before {
			return nil, fmt.Errorf("%s.%s: an optional field was written as nothing", c.Name, key)
		}
		if len(buf) != before {
			block |= bit
			used = len(buf)
		}
	}
	buf[blockPos] = block
	return buf[:used], nil
}

// TL2Top writes a parameter-free constructor or function as generated code writes the corresponding object.
func (r *Resolver) TL2Top(c *schemagen.Comb, v *Value) ([]byte, error) {
	if len(c.Params) != 0 {
		return nil, fmt.Errorf("%s has parameters", c.Name)
	}
	if c.IsFunc {
		body, err := r.tl2Body(c, nil, v, 0)
		if err != nil {
			return nil, err
		}
		return append(tl2Size(nil, len(body)), body...), nil
	}
	if len(c.Fields) == 1 && c.Fields[0].Type.Name == "?" {
		return tl2Prim(nil, c.Name, v.Fields["_0"], false), nil
	}
	return r.TL2(nil, schemagen.TypeExpr{Kind: "ref", Name: c.Name, Bare: true}, v, false)
}

// BadVariant asks the writer for an invalid encoding: the Site-th union-typed object it writes (counted in Seen) names a
// variant index equal to the number of variants. Site -1 only counts. Not for concurrent use.
type BadVariant struct {
	Site, Seen int
	Applied    bool
}

var TL2Bad *BadVariant

// IsUnionMember: the combinator is one of several constructors of its type.
func (r *Resolver) IsUnionMember(c *schemagen.Comb) bool { return len(r.byType[c.ResultType]) > 1 }
