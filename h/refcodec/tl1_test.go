package refcodec

import (
	"bytes"
	"testing"

	"github.com/VKCOM/tl/verifh/schemagen"
	"pgregory.net/rapid"
)

// development-time self check: generated values encode, decode back to the same bytes
func TestSelfRoundTrip(t *testing.T) {
	n, bytesTotal := 0, 0
	rapid.Check(t, func(rt *rapid.T) {
		s := schemagen.Generate(rt, schemagen.DefaultOpts())
		r := NewResolver(s)
		rnd := NewRand(rapid.Uint64().Draw(rt, "seed"))
		for _, c := range TopLevel(s) {
			v, err := r.GenTop(rnd, c)
			if err != nil {
				rt.Fatalf("gen %s: %v\n%s", c.Name, err, s.Text(schemagen.Layout{}))
			}
			b, err := r.EncodeTop(c, v)
			if err != nil {
				rt.Fatalf("encode %s: %v\n%s", c.Name, err, c.PlainLine())
			}
			v2, rest, err := r.DecodeTop(b, c)
			if err != nil || len(rest) != 0 {
				rt.Fatalf("decode %s: %v (%d left) %x\n%s", c.Name, err, len(rest), b, c.PlainLine())
			}
			b2, err := r.EncodeTop(c, v2)
			if err != nil || !bytes.Equal(b, b2) {
				rt.Fatalf("re-encode %s differs: %x vs %x (%v)", c.Name, b, b2, err)
			}
			n++
			bytesTotal += len(b)
		}
	})
	t.Logf("%d values, %d bytes", n, bytesTotal)
}
