package refcodec

import (
	"bytes"
	"strings"
	"encoding/base64"
	"encoding/json"
	"fmt"
	"math"
	"sort"
	"strconv"
	"unicode/utf8"

	"github.com/VKCOM/tl/verifh/schemagen"
)

// Reference JSON writer over the schema model, written from the "correspondence with JSON" chapter of TLPrimer:
// canonical forms, every documented alternative form (chosen per site by a seeded PRNG), and on request exactly one
// documented invalid form. It is used to feed generated JSON readers; the resulting value is then compared through
// its TL1 bytes with the reference encoder's.
//
//   numbers            number | "decimal string"                 NaN, +Inf, -Inf are strings
//   string             "text" if valid UTF-8, else {"base64":..} both forms are readable for any content
//   struct             object; a field that is absent means the empty value; a masked field is written iff its bit is
//                      set; a field under a LOCAL mask that is written implies its bit, so the mask field may be left out
//   fm.N?true          true iff the bit is set; false is readable iff the bit is clear
//   union              {"type":ctor,"value":{..}} | {"type":ctor} when the value is empty | "ctor" when the value is empty
//   enum               "ctor" | {"type":ctor} | {"type":ctor,"value":{}}
//   Maybe              {"ok":true,"value":x} | {"value":x} | {"ok":true} when x is empty;  {} | {"ok":false}
//   arrays             [..]; length must equal a size parameter exactly
//   dictionaries       {"key":value,...} for string and integer keys | [{"key":k,"value":v},...]
//   unknown or duplicate keys, {"ok":false,"value":x}, wrong length, false for a set true-bit: errors

// JSONOpts selects forms.
type JSONOpts struct {
	Rnd        *Rand  // nil: canonical forms only
	AltPercent int    // per site probability of an alternative form
	Violation  string // "", unknown-key, duplicate-key, array-length, maybe-false-value, true-false-with-bit
	Site       int    // which eligible site (in emission order) receives the violation; -1: only count sites
	Sites      int    // out: eligible sites seen
	Applied    bool   // out: the violation was written
	Alts       map[string]int
	Disabled   map[string]bool // alternative forms not to use (known findings); how often they came up is in Skipped
	Skipped    map[string]int
}

type Unsupported struct{ What string }

func (u Unsupported) Error() string { return "reference JSON does not model " + u.What }

func (o *JSONOpts) alt(what string) bool {
	if o.Rnd == nil || o.AltPercent <= 0 {
		return false
	}
	if o.Rnd.Intn(100) < o.AltPercent {
		if o.Disabled[what] {
			if o.Skipped == nil {
				o.Skipped = map[string]int{}
			}
			o.Skipped[what]++
			return false
		}
		if o.Alts == nil {
			o.Alts = map[string]int{}
		}
		o.Alts[what]++
		return true
	}
	return false
}

// site reports whether the requested violation goes here.
func (o *JSONOpts) site(kind string) bool {
	if o.Violation != kind {
		return false
	}
	o.Sites++
	if o.Site >= 0 && o.Sites-1 == o.Site && !o.Applied {
		o.Applied = true
		return true
	}
	return false
}

func jsonString(s []byte) []byte {
	b, _ := json.Marshal(string(s))
	return b
}

func base64Object(s []byte) []byte {
	return []byte(`{"base64":"` + base64.StdEncoding.EncodeToString(s) + `"}`)
}

func (r *Resolver) jsonPrim(o *JSONOpts, name string, v *Value) ([]byte, error) {
	quote := func(s string) []byte {
		if o.alt("number-as-string") {
			return []byte(`"` + s + `"`)
		}
		return []byte(s)
	}
	switch name {
	case "#":
		return quote(strconv.FormatUint(uint64(uint32(v.U)), 10)), nil
	case "int":
		return quote(strconv.FormatInt(int64(int32(uint32(v.U))), 10)), nil
	case "long":
		return quote(strconv.FormatInt(int64(v.U), 10)), nil
	case "float", "double":
		f, bits := float64(math.Float32frombits(uint32(v.U))), 32
		if name == "double" {
			f, bits = math.Float64frombits(v.U), 64
		}
		switch {
		case math.IsNaN(f):
			return []byte(`"NaN"`), nil
		case math.IsInf(f, 1):
			return []byte(`"+Inf"`), nil
		case math.IsInf(f, -1):
			return []byte(`"-Inf"`), nil
		}
		return quote(strconv.FormatFloat(f, 'f', -1, bits)), nil
	case "string":
		if !utf8.Valid(v.S) || o.alt("string-as-base64") {
			return base64Object(v.S), nil
		}
		return jsonString(v.S), nil
	}
	return nil, fmt.Errorf("not a primitive: %s", name)
}

// IsEmpty: the value is the empty value of its type in the primer's sense (zero numbers, empty strings, false, empty
// arrays, a struct all of whose fields are empty, the first constructor of a union with empty fields, Maybe without a
// value) - what an absent JSON field denotes. An array with elements is never empty, whatever the elements are.
func (r *Resolver) IsEmpty(t schemagen.TypeExpr, v *Value) bool {
	if v == nil {
		return true
	}
	if isPrimType(t) {
		return v.U == 0 && len(v.S) == 0
	}
	ctors, _, err := r.resolve(t)
	if err != nil || len(ctors) == 0 {
		return false
	}
	var c *schemagen.Comb
	for _, x := range ctors {
		if x.Name == v.Ctor {
			c = x
		}
	}
	if c == nil || c != ctors[0] {
		return false
	}
	return r.emptyBody(c, t.Args, v)
}

func (r *Resolver) emptyBody(c *schemagen.Comb, args []schemagen.Arg, v *Value) bool {
	if len(c.Fields) == 1 && c.Fields[0].Type.Name == "?" {
		f := v.Fields["_0"]
		return f == nil || (f.U == 0 && len(f.S) == 0)
	}
	e, err := bind(c, args)
	if err != nil {
		return false
	}
	for i, f := range c.Fields {
		fv := v.Fields[fieldKey(f, i)]
		if fv == nil {
			continue
		}
		if f.Mask != nil {
			return false // a present masked field: its bit is set somewhere
		}
		if f.Type.Kind == "brackets" {
			if len(fv.Elems) != 0 {
				return false
			}
			continue
		}
		ct, err := e.close(f.Type)
		if err != nil {
			return false
		}
		if isNatField(f) {
			if fv.U != 0 {
				return false
			}
			e.nat[f.Name] = 0
			continue
		}
		if !r.IsEmpty(ct, fv) {
			return false
		}
	}
	return true
}

func isPrimType(t schemagen.TypeExpr) bool {
	return t.Kind == "prim" || (t.Kind == "ref" && isPrim(t.Name) && len(t.Args) == 0)
}

// JSON writes v as the closed type t.
func (r *Resolver) JSON(o *JSONOpts, t schemagen.TypeExpr, v *Value) ([]byte, error) {
	if isPrimType(t) {
		return r.jsonPrim(o, t.Name, v)
	}
	ctors, _, err := r.resolve(t)
	if err != nil {
		return nil, err
	}
	var c *schemagen.Comb
	for _, x := range ctors {
		if x.Name == v.Ctor {
			c = x
		}
	}
	if c == nil {
		return nil, fmt.Errorf("value of constructor %q is not of type %s", v.Ctor, t.Plain(true))
	}
	switch {
	case len(c.Fields) == 1 && c.Fields[0].Type.Name == "?":
		return r.jsonPrim(o, c.Name, v.Fields["_0"])
	case c.ResultType == "Bool" && (c.Name == "boolFalse" || c.Name == "boolTrue"):
		return []byte(strconv.FormatBool(c.Name == "boolTrue")), nil
	case c.Name == "true" && len(c.Fields) == 0:
		return []byte("{}"), nil
	case c.ResultType == "Maybe" && len(ctors) == 2:
		return r.jsonMaybe(o, c, t.Args, v)
	case c.Name == "vector" || c.Name == "tuple":
		arr := v.Fields[fmt.Sprintf("_%d", len(c.Fields)-1)]
		et, err := elemType(c, t.Args)
		if err != nil {
			return nil, err
		}
		return r.jsonArray(o, et, arr, c.Name == "tuple")
	case c.Name == "dictionary" || c.Name == "dictionaryAny":
		return r.jsonDict(o, c, t.Args, v)
	}
	if len(ctors) > 1 {
		enum := true
		for _, x := range ctors {
			if len(x.Fields) != 0 {
				enum = false
			}
		}
		name := jsonString([]byte(c.Name))
		if enum {
			switch {
			case o.alt("enum-as-object"):
				return []byte(`{"type":` + string(name) + `}`), nil
			case o.alt("enum-as-object-with-value"):
				return []byte(`{"type":` + string(name) + `,"value":{}}`), nil
			}
			return name, nil
		}
		body, empty, err := r.jsonStruct(o, c, t.Args, v, true)
		if err != nil {
			return nil, err
		}
		if empty && string(body) == "{}" {
			switch {
			case o.alt("union-as-string"):
				return name, nil
			case o.alt("union-without-value"):
				return []byte(`{"type":` + string(name) + `}`), nil
			}
		}
		if o.alt("union-value-before-type") {
			return []byte(`{"value":` + string(body) + `,"type":` + string(name) + `}`), nil
		}
		return []byte(`{"type":` + string(name) + `,"value":` + string(body) + `}`), nil
	}
	body, _, err := r.jsonStruct(o, c, t.Args, v, false)
	return body, err
}

func elemType(c *schemagen.Comb, args []schemagen.Arg) (schemagen.TypeExpr, error) {
	e, err := bind(c, args)
	if err != nil {
		return schemagen.TypeExpr{}, err
	}
	last := c.Fields[len(c.Fields)-1]
	if last.Type.Kind != "brackets" || len(last.Type.Rep) != 1 {
		return schemagen.TypeExpr{}, Unsupported{"the shape of " + c.Name}
	}
	return e.close(last.Type.Rep[0].Type)
}

func (r *Resolver) jsonArray(o *JSONOpts, et schemagen.TypeExpr, arr *Value, sized bool) ([]byte, error) {
	var w bytes.Buffer
	w.WriteByte('[')
	n := 0
	if arr != nil {
		n = len(arr.Elems)
	}
	skip := -1
	extra := false
	if sized && o.site("array-length") {
		if n > 0 && (o.Rnd == nil || o.Rnd.Intn(2) == 0) {
			skip = n - 1
		} else {
			extra = true
		}
	}
	first := true
	for i := 0; i < n; i++ {
		if i == skip {
			continue
		}
		b, err := r.JSON(o, et, arr.Elems[i])
		if err != nil {
			return nil, err
		}
		if !first {
			w.WriteByte(',')
		}
		first = false
		w.Write(b)
	}
	if extra {
		b, err := r.JSON(&JSONOpts{}, et, r.Zero(et))
		if err != nil {
			return nil, err
		}
		if !first {
			w.WriteByte(',')
		}
		w.Write(b)
	}
	w.WriteByte(']')
	return w.Bytes(), nil
}

func (r *Resolver) jsonMaybe(o *JSONOpts, c *schemagen.Comb, args []schemagen.Arg, v *Value) ([]byte, error) {
	if len(args) != 1 || args[0].Type == nil {
		return nil, Unsupported{"this Maybe"}
	}
	it := *args[0].Type
	if c.Name == "resultFalse" || len(c.Fields) == 0 {
		if o.site("maybe-false-value") {
			b, err := r.JSON(&JSONOpts{}, it, r.Zero(it))
			if o.Rnd != nil && o.Rnd.Intn(2) == 0 {
				return []byte(`{"value":` + string(b) + `,"ok":false}`), err
			}
			return []byte(`{"ok":false,"value":` + string(b) + `}`), err
		}
		if o.alt("maybe-ok-false") {
			return []byte(`{"ok":false}`), nil
		}
		return []byte("{}"), nil
	}
	inner := v.Fields["_0"]
	if inner == nil {
		inner = r.Zero(it)
	}
	appliedBefore := o.Applied
	b, err := r.JSON(o, it, inner)
	if err != nil {
		return nil, err
	}
	carries := o.Applied && !appliedBefore // the requested invalid form sits inside the value: it must be written
	if o.site("maybe-false-value") {
		if o.Rnd != nil && o.Rnd.Intn(2) == 0 { // key order must not matter
			return []byte(`{"value":` + string(b) + `,"ok":false}`), nil
		}
		return []byte(`{"ok":false,"value":` + string(b) + `}`), nil
	}
	switch {
	case o.alt("maybe-without-ok"):
		return []byte(`{"value":` + string(b) + `}`), nil
	case !carries && r.IsEmpty(it, inner) && o.alt("maybe-without-value"):
		return []byte(`{"ok":true}`), nil
	case o.alt("maybe-value-before-ok"):
		return []byte(`{"value":` + string(b) + `,"ok":true}`), nil
	}
	return []byte(`{"ok":true,"value":` + string(b) + `}`), nil
}

func (r *Resolver) jsonDict(o *JSONOpts, c *schemagen.Comb, args []schemagen.Arg, v *Value) ([]byte, error) {
	var kt, vt schemagen.TypeExpr
	var arr *Value
	switch c.Name {
	case "dictionary":
		if len(args) != 1 || args[0].Type == nil {
			return nil, Unsupported{"this dictionary"}
		}
		kt, vt = schemagen.TypeExpr{Kind: "prim", Name: "string"}, *args[0].Type
		if vec := v.Fields["_0"]; vec != nil {
			arr = vec.Fields["_1"]
		}
	default:
		if len(args) != 2 || args[0].Type == nil || args[1].Type == nil {
			return nil, Unsupported{"this dictionaryAny"}
		}
		kt, vt = *args[0].Type, *args[1].Type
		arr = v.Fields["_1"]
	}
	if !isPrimType(kt) || (kt.Name != "string" && kt.Name != "int" && kt.Name != "long") {
		return nil, Unsupported{"dictionary keys of type " + kt.Plain(true)}
	}
	var elems []*Value
	if arr != nil {
		elems = arr.Elems
	}
	asPairs := o.alt("dictionary-as-pairs")
	var w bytes.Buffer
	if asPairs {
		w.WriteByte('[')
	} else {
		w.WriteByte('{')
	}
	for i, el := range elems {
		if i > 0 {
			w.WriteByte(',')
		}
		k, val := el.Fields["_0"], el.Fields["_1"]
		if val == nil {
			val = r.Zero(vt)
		}
		vb, err := r.JSON(o, vt, val)
		if err != nil {
			return nil, err
		}
		if asPairs {
			kb, err := r.jsonPrim(o, kt.Name, k)
			if err != nil {
				return nil, err
			}
			w.WriteString(`{"key":`)
			w.Write(kb)
			w.WriteString(`,"value":`)
			w.Write(vb)
			w.WriteByte('}')
			continue
		}
		switch kt.Name {
		case "string":
			if !utf8.Valid(k.S) {
				return nil, Unsupported{"a dictionary key that is not UTF-8 (known finding F25)"}
			}
			w.Write(jsonString(k.S))
		case "int":
			w.WriteString(`"` + strconv.FormatInt(int64(int32(uint32(k.U))), 10) + `"`)
		default:
			w.WriteString(`"` + strconv.FormatInt(int64(k.U), 10) + `"`)
		}
		w.WriteByte(':')
		w.Write(vb)
	}
	if asPairs {
		w.WriteByte(']')
	} else {
		w.WriteByte('}')
	}
	return w.Bytes(), nil
}

// natReferenced: is the # field `name` of c used for anything but local field masks (a size, an argument)?
func natReferenced(c *schemagen.Comb, name string) bool {
	found := false
	var walk func(t *schemagen.TypeExpr)
	walk = func(t *schemagen.TypeExpr) {
		if t.Scale != nil && t.Scale.Kind != "const" && t.Scale.Name == name {
			found = true
		}
		if (t.Kind == "ref" || t.Kind == "tparam") && t.Name == name {
			found = true
		}
		for i := range t.Args {
			if a := t.Args[i]; a.Nat != nil && a.Nat.Kind != "const" && a.Nat.Name == name {
				found = true
			} else if a.Type != nil {
				walk(a.Type)
			}
		}
		for i := range t.Rep {
			walk(&t.Rep[i].Type)
		}
	}
	for i := range c.Fields {
		f := c.Fields[i]
		if f.Type.Kind == "brackets" && f.Type.Scale == nil {
			found = true // implicit size: the preceding # field
		}
		walk(&f.Type)
	}
	return found
}

type jsonField struct {
	name    string
	text    []byte
	present bool
	masked  bool
	local   bool // masked by a field of the same object
	src     string
	bit     int
	empty   bool
	isTrue  bool
	isNat   bool
	natVal  uint32
	force   bool // the requested violation sits inside this field's text: it must be written
}

// jsonStruct writes the object of one constructor; empty reports that every field has its empty value.
func (r *Resolver) jsonStruct(o *JSONOpts, c *schemagen.Comb, args []schemagen.Arg, v *Value, variant bool) ([]byte, bool, error) {
	e, err := bind(c, args)
	if err != nil {
		return nil, false, err
	}
	lastNat := ""
	for _, p := range c.Params {
		if p.IsNat {
			lastNat = p.Name
		}
	}
	localNames := map[string]bool{}
	var fs []jsonField
	for i, f := range c.Fields {
		key, name := fieldKey(f, i), f.Name
		if f.Name == "" {
			return nil, false, Unsupported{"the unnamed field of " + c.Name}
		}
		jf := jsonField{name: name, present: true}
		if f.Mask != nil {
			jf.masked, jf.src, jf.bit, jf.local = true, f.Mask.Src, f.Mask.Bit, localNames[f.Mask.Src]
			m, ok := e.nat[f.Mask.Src]
			if !ok {
				return nil, false, fmt.Errorf("%s.%s: mask %q is not defined", c.Name, name, f.Mask.Src)
			}
			jf.present = m>>uint(f.Mask.Bit)&1 == 1
		}
		localNames[name] = true
		jf.isNat = isNatField(f)
		jf.isTrue = f.Type.Kind == "ref" && (f.Type.Name == "true" || f.Type.Name == "True") && len(f.Type.Args) == 0
		if !jf.present {
			if jf.isNat {
				e.nat[name] = 0
			}
			fs = append(fs, jf)
			continue
		}
		fv := v.Fields[key]
		appliedBefore := o.Applied
		if f.Type.Kind == "brackets" {
			if len(f.Type.Rep) != 1 {
				return nil, false, Unsupported{"a repetition of several fields in " + c.Name}
			}
			if _, err := r.repCount(e, f.Type, lastNat); err != nil {
				return nil, false, err
			}
			et, err := e.close(f.Type.Rep[0].Type)
			if err != nil {
				return nil, false, err
			}
			if fv == nil {
				fv = &Value{Kind: "array"}
			}
			jf.empty = len(fv.Elems) == 0 // an omitted array reads as no elements, which only fits size 0
			if jf.text, err = r.jsonArray(o, et, fv, true); err != nil {
				return nil, false, err
			}
			jf.force = o.Applied && !appliedBefore
			fs = append(fs, jf)
			continue
		}
		ct, err := e.close(f.Type)
		if err != nil {
			return nil, false, err
		}
		if fv == nil {
			fv = r.Zero(ct)
		}
		jf.empty = r.IsEmpty(ct, fv)
		if jf.isTrue {
			jf.text = []byte("true")
		} else if jf.text, err = r.JSON(o, ct, fv); err != nil {
			return nil, false, err
		}
		if jf.isNat {
			jf.natVal = uint32(fv.U)
			e.nat[name] = jf.natVal
			lastNat = name
		}
		jf.force = o.Applied && !appliedBefore
		fs = append(fs, jf)
	}
	// which fields are written
	written := make([]bool, len(fs))
	allEmpty := true
	for i := range fs {
		f := &fs[i]
		switch {
		case !f.present:
			if f.isTrue && f.local && o.alt("true-field-false-when-bit-clear") {
				f.text, written[i] = []byte("false"), true
			}
		case f.masked:
			written[i] = true
			allEmpty = false
			if f.empty && !f.force && !f.isTrue && f.local && maskWritable(fs, written, f.src) && o.alt("masked-empty-field-left-to-its-bit") {
				written[i] = false // the bit is set in the explicit mask, the field reads as its empty value
				fs[i].present = false
			}
		case f.isTrue:
			// an unmasked true carries nothing
		case !f.empty || f.force:
			written[i] = true
			allEmpty = false
		default:
			if o.alt("explicit-empty-field") {
				written[i] = true
			}
		}
	}
	// a mask all of whose set bits are implied by written local fields may be left out
	for i := range fs {
		f := &fs[i]
		if !f.isNat || f.masked || !written[i] || f.natVal == 0 || natReferenced(c, f.name) {
			continue
		}
		var implied uint32
		for j := range fs {
			if fs[j].masked && fs[j].local && fs[j].src == f.name && fs[j].present && written[j] {
				implied |= 1 << uint(fs[j].bit)
			}
		}
		if implied == f.natVal && o.alt("mask-implied-by-fields") {
			written[i] = false
		}
	}
	// violations
	for i := range fs {
		f := &fs[i]
		if f.isTrue && f.local && f.present && written[i] && maskIsWritten(fs, written, f.src) && o.site("true-false-with-bit") {
			f.text = []byte("false")
		}
	}
	var w bytes.Buffer
	w.WriteByte('{')
	n := 0
	put := func(name string, text []byte) {
		if n > 0 {
			w.WriteByte(',')
		}
		n++
		w.Write(jsonString([]byte(name)))
		w.WriteByte(':')
		w.Write(text)
	}
	order := make([]int, 0, len(fs))
	for i := range fs {
		if written[i] {
			order = append(order, i)
		}
	}
	if len(order) > 1 && o.alt("fields-in-another-order") {
		// masks must still precede the fields that depend on them? The primer does not say so; readers resolve masks
		// after the whole object is read. Keep nat fields first to stay within what is documented for sizes.
		sort.SliceStable(order, func(a, b int) bool { return fs[order[a]].isNat && !fs[order[b]].isNat })
		rest := order
		k := 0
		for k < len(rest) && fs[rest[k]].isNat {
			k++
		}
		tail := rest[k:]
		for x := len(tail) - 1; x > 0; x-- {
			y := o.Rnd.Intn(x + 1)
			tail[x], tail[y] = tail[y], tail[x]
		}
	}
	for _, i := range order {
		put(fs[i].name, fs[i].text)
		if o.site("duplicate-key") {
			put(fs[i].name, fs[i].text)
		}
	}
	kind := "unknown-key"
	if variant && len(c.Fields) == 0 {
		kind = "unknown-key-in-fieldless-variant" // its own kind: known finding F37
	}
	if o.site(kind) {
		put("zzNoSuchField", []byte("1"))
	}
	w.WriteByte('}')
	return w.Bytes(), allEmpty, nil
}

func maskIsWritten(fs []jsonField, written []bool, src string) bool {
	for i := range fs {
		if fs[i].name == src {
			return written[i]
		}
	}
	return false
}

// maskWritable: the local mask field exists, is unmasked itself and is (so far) going to be written explicitly.
func maskWritable(fs []jsonField, written []bool, src string) bool {
	for i := range fs {
		if fs[i].name == src {
			return !fs[i].masked && fs[i].natVal != 0
		}
	}
	return false
}

// JSONTop writes a parameter-free constructor or function.
func (r *Resolver) JSONTop(o *JSONOpts, c *schemagen.Comb, v *Value) ([]byte, error) {
	if len(c.Params) != 0 {
		return nil, fmt.Errorf("%s has parameters", c.Name)
	}
	if len(c.Fields) == 1 && c.Fields[0].Type.Name == "?" {
		return r.jsonPrim(o, c.Name, v.Fields["_0"])
	}
	b, _, err := r.jsonStruct(o, c, nil, v, false)
	return b, err
}

// CanonDicts makes every dictionary inside v what a map-backed implementation holds: unique keys (the last entry
// wins), sorted (strings bytewise, integers numerically).
func CanonDicts(v *Value) {
	if v == nil {
		return
	}
	for _, f := range v.Fields {
		CanonDicts(f)
	}
	for _, e := range v.Elems {
		CanonDicts(e)
	}
	var cnt, arr *Value
	// every "...Dictionary..." container of key/value pairs, whatever it is called (dictionary, dictionaryAny,
	// intKeyDictionary, ...): either a typedef of a vector of pairs or "# [pair]" itself
	if lc := strings.ToLower(v.Ctor); strings.Contains(lc, "dictionary") && !strings.Contains(lc, "field") {
		if a := v.Fields["_1"]; a != nil && a.Kind == "array" {
			cnt, arr = v.Fields["_0"], a
		} else if vec := v.Fields["_0"]; vec != nil && vec.Kind == "struct" {
			if a := vec.Fields["_1"]; a != nil && a.Kind == "array" {
				cnt, arr = vec.Fields["_0"], a
			}
		}
	}
	if arr != nil {
		for _, e := range arr.Elems {
			if e == nil || e.Fields["_0"] == nil || (e.Fields["_0"].Kind != "string" && e.Fields["_0"].Kind != "int" && e.Fields["_0"].Kind != "long") {
				arr = nil // not a dictionary with a string/integer key
				break
			}
		}
	}
	if arr == nil || len(arr.Elems) == 0 {
		return
	}
	less := func(a, b *Value) int {
		ka, kb := a.Fields["_0"], b.Fields["_0"]
		switch ka.Kind {
		case "string":
			return bytes.Compare(ka.S, kb.S)
		case "int":
			x, y := int32(uint32(ka.U)), int32(uint32(kb.U))
			if x < y {
				return -1
			} else if x > y {
				return 1
			}
			return 0
		}
		x, y := int64(ka.U), int64(kb.U)
		if x < y {
			return -1
		} else if x > y {
			return 1
		}
		return 0
	}
	var out []*Value
	for i, e := range arr.Elems { // last wins
		dup := false
		for _, later := range arr.Elems[i+1:] {
			if less(e, later) == 0 {
				dup = true
			}
		}
		if !dup {
			out = append(out, e)
		}
	}
	sort.SliceStable(out, func(i, j int) bool { return less(out[i], out[j]) < 0 })
	arr.Elems = out
	if cnt != nil {
		cnt.U = uint64(len(out))
	}
}
