//go:build verif

// Read-only accessors used by /verif checks (mapped into internal/vkgo/pkg/algo with -overlay; not part of /repo).
package algo

// VerifWalk visits the nodes of the tree in pre-order.
func VerifWalk[K any, V any, C comparator[K]](t *TreeMap[K, V, C], visit func(key K, value V, storedHeight int32, hasLeft, hasRight bool)) {
	var rec func(n *TreeNode[Entry[K, V]])
	rec = func(n *TreeNode[Entry[K, V]]) {
		if n == nil {
			return
		}
		visit(n.value.K, n.value.V, n.height, n.left != nil, n.right != nil)
		rec(n.left)
		rec(n.right)
	}
	rec(t.root)
}

// VerifCountingAllocator counts allocations and deallocations of tree nodes.
type VerifCountingAllocator[T any] struct {
	Inner       SliceCacheAllocator[T]
	Allocated   int
	Deallocated int
}

func (a *VerifCountingAllocator[T]) allocate() *T {
	a.Allocated++
	return a.Inner.allocate()
}

func (a *VerifCountingAllocator[T]) deallocate(t *T) {
	a.Deallocated++
	a.Inner.deallocate(t)
}
