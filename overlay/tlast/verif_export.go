//go:build verif

// Read-only accessors used by /verif checks (mapped into internal/tlast with -overlay; not part of /repo).
package tlast

// VerifPosition exposes the unexported coordinates of a Position.
func VerifPosition(p Position) (fileContent string, offset, startLineOffset, line, column int) {
	return p.fileContent, p.offset, p.startLineOffset, p.line, p.column
}

// VerifTokenCount lexes the text and returns the number of tokens (without the eof marker) and whether the lexer accepted it.
func VerifTokenCount(s string, opts LexerOptions) (int, bool) {
	lex := newLexer(s, "", opts)
	toks, err := lex.generateTokens()
	n := len(toks)
	if n > 0 && err == nil {
		n--
	}
	return n, err == nil
}
