//go:build verif

// Read-only accessors used by /verif checks (mapped into pkg/rpc/udp with -overlay; not part of /repo).
package udp

import "github.com/VKCOM/tl/pkg/rpc/internal/gen/tlnetUdpPacket"

// VerifAckState returns the acknowledged prefix [0..prefix) and the recorded ranges in list order.
func VerifAckState(a *AcksToSend) (prefix uint32, ranges [][2]uint32) {
	for r := a.firstRange; r != nil; r = r.next {
		ranges = append(ranges, [2]uint32{r.ackFrom, r.ackTo})
	}
	return a.ackPrefix, ranges
}

type VerifAckHeader struct {
	HasPrefix bool
	Prefix    uint32
	HasFromTo bool
	From, To  uint32
	HasSet    bool
	Set       []uint32
}

func VerifBuildAck(a *AcksToSend) VerifAckHeader {
	var enc tlnetUdpPacket.EncHeader
	a.BuildAck(&enc)
	h := VerifAckHeader{HasPrefix: enc.IsSetPacketAckPrefix(), Prefix: enc.PacketAckPrefix,
		HasFromTo: enc.IsSetPacketAckFrom() || enc.IsSetPacketAckTo(), From: enc.PacketAckFrom, To: enc.PacketAckTo,
		HasSet: enc.IsSetPacketAckSet()}
	h.Set = append(h.Set, enc.PacketAckSet...)
	return h
}

func VerifBuildNegativeAck(a *AcksToSend) [][2]uint32 {
	var req tlnetUdpPacket.ResendRequest
	a.BuildNegativeAck(&req)
	var out [][2]uint32
	for _, r := range req.Ranges {
		out = append(out, [2]uint32{r.PacketNumFrom, r.PacketNumTo})
	}
	return out
}

// ---- simulator outcome (C36) ----

type VerifMessage struct {
	Src, Dst int
	Message  string
}

type VerifOutcome struct {
	Panic          any // non-nil: FuzzDyukov panicked with this value (state below is the state at that moment)
	Sent, Received map[VerifMessage]int
	AcquiredMemory []int64 // per transport
	MemoryLimit    []int64
	HeldByConns    []int64 // per transport: sum over its connections of (messagesTotalOffset - messagesBeginOffset)
	Allocated      int
	Deallocated    int
}

// VerifRunSimulator runs FuzzDyukov and returns the simulator state when it returned or panicked.
func VerifRunSimulator(cmds []byte, restarts bool) (out *VerifOutcome) {
	var fctx *FuzzTransportContext
	VerifObserveHook = func(f *FuzzTransportContext) { fctx = f }
	snapshot := func(p any) {
		VerifObserveHook = nil
		if fctx == nil {
			if p != nil {
				panic(p)
			}
			return
		}
		f := fctx
		o := &VerifOutcome{Panic: p, Sent: map[VerifMessage]int{}, Received: map[VerifMessage]int{}, Allocated: f.allocatedMessages, Deallocated: f.deallocatedMessages}
		for m, n := range f.sentMessages {
			o.Sent[VerifMessage{m.src, m.dst, m.message}] = n
		}
		for m, n := range f.receivedMessages {
			o.Received[VerifMessage{m.src, m.dst, m.message}] = n
		}
		for _, t := range f.ts {
			if t == nil {
				o.AcquiredMemory = append(o.AcquiredMemory, 0)
				o.MemoryLimit = append(o.MemoryLimit, 0)
				o.HeldByConns = append(o.HeldByConns, 0)
				continue
			}
			o.AcquiredMemory = append(o.AcquiredMemory, t.acquiredMemory)
			o.MemoryLimit = append(o.MemoryLimit, t.incomingMessagesMemoryLimit)
			var held int64
			for _, c := range t.handshakeByPid {
				held += c.incoming.messagesTotalOffset - c.incoming.messagesBeginOffset
			}
			o.HeldByConns = append(o.HeldByConns, held)
		}
		out = o
	}
	defer func() { snapshot(recover()) }()
	FuzzDyukov(cmds, restarts)
	return nil
}
