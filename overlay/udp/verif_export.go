//go:build verif

// Read-only accessors used by /verif checks (mapped into pkg/rpc/udp with -overlay; not part of /repo).
package udp

import "github.com/VKCOM/tl/pkg/rpc/internal/gen/tlnetUdpPacket"

// VerifAckState returns the acknowledged prefix [0..prefix) and the recorded ranges in list order.
func VerifAckState(a *AcksToSend) (prefix uint32, ranges [][2]uint32) {
	for r := a.firstRange; r != nil; r = r.next {
		ranges = append(ranges, [2]uint32{r.ackFrom, r.ackTo})
	}
	return a.ackPrefix, ranges
}

type VerifAckHeader struct {
	HasPrefix bool
	Prefix    uint32
	HasFromTo bool
	From, To  uint32
	HasSet    bool
	Set       []uint32
}

func VerifBuildAck(a *AcksToSend) VerifAckHeader {
	var enc tlnetUdpPacket.EncHeader
	a.BuildAck(&enc)
	h := VerifAckHeader{HasPrefix: enc.IsSetPacketAckPrefix(), Prefix: enc.PacketAckPrefix,
		HasFromTo: enc.IsSetPacketAckFrom() || enc.IsSetPacketAckTo(), From: enc.PacketAckFrom, To: enc.PacketAckTo,
		HasSet: enc.IsSetPacketAckSet()}
	h.Set = append(h.Set, enc.PacketAckSet...)
	return h
}

func VerifBuildNegativeAck(a *AcksToSend) [][2]uint32 {
	var req tlnetUdpPacket.ResendRequest
	a.BuildNegativeAck(&req)
	var out [][2]uint32
	for _, r := range req.Ranges {
		out = append(out, [2]uint32{r.PacketNumFrom, r.PacketNumTo})
	}
	return out
}

// ---- simulator outcome (C36) ----

type VerifMessage struct {
	Src, Dst int
	Message  string
}

type VerifOutcome struct {
	Sent, Received map[VerifMessage]int
	AcquiredMemory []int64
	MemoryLimit    []int64
	Allocated      int
	Deallocated    int
}

// VerifRunSimulator runs FuzzDyukov and returns what the simulator context held when the network had settled.
func VerifRunSimulator(cmds []byte, restarts bool) *VerifOutcome {
	var out *VerifOutcome
	VerifObserveHook = func(f *FuzzTransportContext) {
		o := &VerifOutcome{Sent: map[VerifMessage]int{}, Received: map[VerifMessage]int{}, Allocated: f.allocatedMessages, Deallocated: f.deallocatedMessages}
		for m, n := range f.sentMessages {
			o.Sent[VerifMessage{m.src, m.dst, m.message}] = n
		}
		for m, n := range f.receivedMessages {
			o.Received[VerifMessage{m.src, m.dst, m.message}] = n
		}
		for _, t := range f.ts {
			o.AcquiredMemory = append(o.AcquiredMemory, t.acquiredMemory)
			o.MemoryLimit = append(o.MemoryLimit, t.incomingMessagesMemoryLimit)
		}
		out = o
	}
	defer func() { VerifObserveHook = nil }()
	FuzzDyukov(cmds, restarts)
	return out
}
