//go:build verif

// Read-only accessor used by /verif checks (mapped into internal/vkgo/pkg/semaphore with -overlay; not part of /repo).
package semaphore

// VerifWaiters returns the weights of the queued waiters, front first.
func VerifWaiters(s *Weighted) []int64 {
	s.mu.Lock()
	defer s.mu.Unlock()
	var out []int64
	for e := s.waiters.Front(); e != nil; e = e.Next() {
		out = append(out, e.Value.(waiter).n)
	}
	return out
}
