#!/usr/bin/env python3
# prints the prompt for a seeding sub-agent: only property texts + a scratch worktree path (nothing from /verif's machinery)
import json,sys
wt=sys.argv[1]; ids=sys.argv[2:]
props={}
for l in open('/verif/properties.jsonl'):
    p=json.loads(l); props[p['id']]=p
out=[]
out.append(f"""You are helping evaluate a verification effort for the Go project VKCOM/tl (tlgen: a compiler for VK's TL schema language that generates Go/C++/PHP serializers, plus an RPC library and a backward-compatibility linter). You have your own scratch git worktree of the repository at {wt} (detached HEAD at the pinned commit). Work ONLY inside {wt} (and scratch files under {wt} or /tmp/seedscratch-*); never touch /repo or /verif, and do not read anything under /verif.

Task: for EACH of the properties below, produce ONE realistic change (a plausible bug a developer could introduce: an off-by-one, a dropped check, a wrong branch, a forgotten reset, two sites that are each fine alone, ...) to the repository's source that BREAKS the property, while the repository still compiles and its existing test suite still passes. The change must need something specific to manifest — a particular unusual input, a boundary length, a multi-step sequence of operations, a particular interleaving or fault position, or two cooperating sites — NOT something ordinary use or the first trivial input would expose at once. Do not make changes that are flagged by a comment as a bug, do not touch test files, and keep each change small (a few lines).

For each property deliver, under {wt}/seed_out/<PROPERTY_ID>/ :
  - patch.diff : `git diff` of ONLY that property's source change relative to HEAD (the worktree must be clean of the other property's change when you take the diff; patches for different properties must apply independently to a clean checkout),
  - a demonstration: a Go test file or small program (say demo_test.go plus a README line with the exact command and the directory to place/run it) that FAILS with the change applied and PASSES without it,
  - notes.txt : which property it breaks, precisely what is needed for the breakage to manifest, what commands you ran and their results (including the existing tests you ran to confirm they still pass with the change).

You must actually run things: confirm the demonstration fails with the patch and passes without it, and confirm the existing tests of the affected packages (and any package that depends on the changed code — at minimum `go build ./... && go test -vet=off -count=1 ./<affected packages>/...`) still pass with the patch. For changes to code generators/templates (internal/puregen, internal/pure, internal/tlcodegen) also run `go test -vet=off -count=1 ./internal/...` since checked-in generated code is tested there; do NOT regenerate checked-in generated code.

Environment: no network. Use `export GOFLAGS=-mod=mod GOPROXY=off` in every shell command (do not set GOSUMDB or GOTOOLCHAIN; the go command auto-switches to the cached go1.24.0 toolchain). Do not run `go mod tidy`; if go.sum/go.mod get modified, restore them with git checkout. The machine has 16 cores shared with other jobs; keep test runs targeted. When finished, leave the worktree clean (git checkout -- . ; seed_out/ is untracked and stays). Finally, reply with a short report: per property the one-line description of the change, the files touched, what it needs to manifest, and the paths of the deliverables.

Properties:
""")
for i in ids:
    p=props[i]
    out.append(f"### {i} — {p['title']}\nStatement: {p['statement']}\nQuantified over: {p['quantifier']['text']}\nCode areas involved: {', '.join(p['anchors']['files'])}\n")
print("\n".join(out))
