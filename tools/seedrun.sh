#!/bin/bash
# usage: seedrun.sh <PROPERTY_ID> <patch.diff> [tier]   -- applies a seeded change to /repo, runs the check, always reverts
set -u
id=$1; patch=$2; tier=${3:-quick}
cd /repo || exit 2
if [ -n "$(git status --porcelain)" ]; then echo "repo not clean"; exit 2; fi
git apply "$patch" || { echo "patch does not apply"; exit 2; }
cd /verif && timeout 3600 bin/vcheck "$id" --tier "$tier" > /tmp/seedrun_$id.log 2>&1; rc=$?
cd /repo && git checkout -- . && git clean -fdq -- . 2>/dev/null
grep -E "^(VIOLATION|INCONCLUSIVE|KNOWN-FINDING|C[0-9]+ )" /tmp/seedrun_$id.log | head -8
echo "seedrun $id $(basename $(dirname $patch)) exit=$rc"
