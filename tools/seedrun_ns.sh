#!/bin/bash
# usage: seedrun_ns.sh <PROPERTY_ID> <patch.diff> [tier]
# Like seedrun.sh, but leaves /repo and /verif alone: a clone of /repo's HEAD with the patch applied and a copy of
# /verif are bind-mounted over /repo and /verif inside a private mount namespace, with a private work root. Lets seeded
# changes be tried while other checks run on the real tree.
set -u
id=$1; patch=$(readlink -f "$2"); tier=${3:-quick}
root=/var/tmp/seedns/$$
mkdir -p $root && cd $root || exit 2
git clone -q /repo $root/repo || exit 2
( cd $root/repo && git apply "$patch" ) || { echo "patch does not apply"; rm -rf $root; exit 2; }
rsync -a --exclude .git /verif/ $root/verif/
cp "$patch" $root/patch.diff
mkdir -p /var/tmp/seedns/work
unshare -m bash -c "mount --bind $root/repo /repo && mount --bind $root/verif /verif && cd /verif && VERIF_WORK_ROOT=/var/tmp/seedns/work timeout 3600 bin/vcheck $id --tier $tier" > $root/log 2>&1; rc=$?
grep -E "^(VIOLATION|INCONCLUSIVE|C[0-9]+ )" $root/log | head -6
for f in $(grep -oE "replay=[^ ]+" $root/log | head -1 | cut -d= -f2); do
  python3 - "$root${f}" <<'PY' 2>/dev/null
import json,sys
try:
    r=json.load(open(sys.argv[1])); print('  first failure:', ' '.join(r.get('error','').split())[:400])
except Exception as e: pass
PY
done
mkdir -p /var/tmp/seedns/lastfail && cp $root/verif/replays/$id/fail-* /var/tmp/seedns/lastfail/ 2>/dev/null
echo "seedrun_ns $id $(basename $(dirname $patch)) exit=$rc"
rm -rf $root
