#!/usr/bin/env python3
"""Writes seeded/<id>/meta.json from the notes the seeding agent left and from the results table below
(results = what bin/vcheck <ID> --tier quick did with the patch applied to /repo, via tools/seedrun.sh)."""
import json, os, re, sys, glob
root = '/verif/seeded'
# id -> (caught_by, note)
results = json.load(open('/verif/seeded/results.json'))
for d in sorted(os.listdir(root)):
    p = os.path.join(root, d)
    if not os.path.isdir(p):
        continue
    prop = d.split('-')[0]
    notes = ''
    for f in ('notes.txt', 'NOTES.txt', 'notes.md'):
        if os.path.exists(os.path.join(p, f)):
            notes = open(os.path.join(p, f)).read()
    readme = ''
    for f in ('README.txt', 'README.md', 'README'):
        if os.path.exists(os.path.join(p, f)):
            readme = open(os.path.join(p, f)).read()
    paras = re.split(r'\n\s*\n', notes)
    def para(pat):
        for q in paras:
            if re.search(pat, q.split('\n')[0], re.I):
                return q.strip()
        for q in paras:
            if re.search(pat, q, re.I):
                return q.strip()
        return ''
    res = results.get(d, {})
    meta = {
        'property_id': prop,
        'seed': d,
        'files': sorted(os.listdir(p)),
        'change': para(r'^change') or (paras[0].strip() if paras else ''),
        'needs_to_manifest': para(r'needed|manifest'),
        'demonstration': readme.strip()[:1500],
        'agent_ran': para(r'commands run|what was run|^ran'),
        'confirmed_by_me': res.get('confirmed', 'patch applies to /repo HEAD with `git -C /repo apply`; /repo builds; see result'),
        'check_result': res.get('result', 'not run yet'),
        'caught_by': res.get('caught_by', []),
    }
    json.dump(meta, open(os.path.join(p, 'meta.json'), 'w'), indent=1)
print('ok')
