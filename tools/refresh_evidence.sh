#!/bin/bash
# runs every registered quick check once on /repo as it is (VERIF_SEED=1) so that committed evidence is a fresh plain run
cd /verif || exit 2
ids=$(python3 -c "import json; print(' '.join(c['property_id'] for c in json.load(open('MANIFEST.json'))['checks']))")
bad=0
for id in ${@:-$ids}; do
  out=$(VERIF_SEED=1 bin/vcheck $id --tier quick 2>&1); rc=$?
  echo "$id exit=$rc $(echo "$out" | grep -E "^C[0-9]+ quick" | tail -1)"
  [ $rc -ne 0 ] && { bad=1; echo "$out" | grep -E "VIOLATION|INCONCLUSIVE" | head -3; }
done
python3-vt - <<'PY'
import json,jsonschema,glob
s=json.load(open('/root/.vp/EVIDENCE.schema.json'))
for f in sorted(glob.glob('/verif/evidence/*.json')):
    try: jsonschema.validate(json.load(open(f)), s)
    except Exception as e: print('INVALID', f, str(e)[:200])
PY
exit $bad
